#!/bin/bash
# payload_sweep.sh: removes, one at a time, every tuple of every cache payload
# in cmd/gts/*.go (except "version", which no run can vary) and requires
# ./check C14 quick to report the result. Appends to mutation/payload.tsv.
set -uo pipefail
VERIF="$(cd "$(dirname "$0")/.." && pwd)"
export GOFLAGS=-mod=mod GOPROXY=off GOSUMDB=off GOTOOLCHAIN=local CGO_ENABLED=0
out="$VERIF/mutation/payload.tsv"; mkdir -p "$VERIF/mutation"; : > "$out"
S="$(mktemp -d /tmp/verif-pay.XXXXXX)"; trap 'rm -rf "$S"' EXIT
grep -n '^			{"[a-zA-Z]*", ' /repo/cmd/gts/*.go | grep -v '"version"' | while IFS=: read -r file line rest; do
  name=$(echo "$rest" | sed 's/.*{"\([a-zA-Z]*\)".*/\1/')
  rm -rf "$S/repo" "$S/root"; mkdir -p "$S/root"; rsync -a --exclude .git /repo/ "$S/repo/"
  rel=${file#/repo/}
  # the tuple stays, its value becomes a constant (the expression is still evaluated, so nothing is left unused)
  python3 - "$S/repo/$rel" "$line" <<'PY'
import sys, re
p, n = sys.argv[1], int(sys.argv[2])
ls = open(p).read().split("\n")
m = re.match(r'^(\s*)\{"([A-Za-z]+)", (.*)\},\s*$', ls[n-1])
ls[n-1] = '%s{"%s", func() interface{} { _ = %s; return nil }()},' % (m.group(1), m.group(2), m.group(3))
open(p, "w").write("\n".join(ls))
PY
  if ! (cd "$S/repo" && go build ./... >/dev/null 2>&1); then printf '%s\t%s\tnobuild\n' "$rel" "$name" >> "$out"; continue; fi
  cp "$VERIF/known_findings.json" "$S/root/"
  VERIF_REPO="$S/repo" VERIF_ROOT="$S/root" "$VERIF/check" C14 quick >"$S/log" 2>&1; st=$?
  cls=$(grep -m1 '^violation' "$S/log" | sed 's/ occurrences.*//' | cut -c1-100)
  printf '%s\t%s\texit=%d\t%s\n' "$rel" "$name" $st "$cls" >> "$out"
done
echo "payload sweep done: $(cut -f3 "$out" | sort | uniq -c | tr '\n' ' ')"
