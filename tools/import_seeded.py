#!/usr/bin/env python3
"""Re-verify a seeded defect delivered by a sub-agent in a scratch worktree and keep it.

usage: import_seeded.py <id> [<worktree>]      (worktree defaults to /tmp/wt-<id>)

In the worktree: clean tree -> tests pass, demonstration passes; patch applied ->
builds, tests pass, demonstration fails. Only then is it copied to
/verif/seeded/<id>/ (patch.diff, the demonstration, meta.json). Exit 0 kept / 1 rejected.
"""
import json, os, re, shutil, subprocess, sys

ENV = dict(os.environ, GOFLAGS="-mod=mod", GOPROXY="off", GOSUMDB="off", GOTOOLCHAIN="local")
VERIF = os.path.dirname(os.path.dirname(os.path.abspath(__file__)))


def sh(cmd, cwd, timeout=1200):
    p = subprocess.run(cmd, shell=True, cwd=cwd, env=ENV, stdout=subprocess.PIPE, stderr=subprocess.STDOUT, timeout=timeout)
    return p.returncode, p.stdout.decode(errors="replace")


def main():
    ident = sys.argv[1]
    wt = sys.argv[2] if len(sys.argv) > 2 else "/tmp/wt-" + ident
    out = os.path.join(wt, "_out")
    patch = os.path.join(out, "patch.diff")
    if not os.path.exists(patch):
        print("REJECT", ident, "no patch.diff"); return 1
    meta = {}
    try:
        meta = json.load(open(os.path.join(out, "meta.json")))
    except Exception as e:
        print("note: meta.json unreadable:", e)
    demo_go = os.path.join(out, "demo_test.go")
    demo_sh = os.path.join(out, "demo.sh")
    pkgdir = None
    if os.path.exists(demo_go):
        m = re.search(r"^package\s+(\w+)", open(demo_go).read(), re.M)
        pkg = m.group(1) if m else ""
        pkgdir = {"seqio": "seqio", "seqio_test": "seqio", "gts": ".", "gts_test": ".", "cache": "cmd/cache", "cache_test": "cmd/cache", "main": "cmd/gts", "cmd": "cmd"}.get(pkg)
        if pkgdir is None:
            print("REJECT", ident, "cannot place demo_test.go (package %s)" % pkg); return 1
    elif not os.path.exists(demo_sh):
        print("REJECT", ident, "no demonstration"); return 1

    def clean():
        sh("git checkout -- . && git clean -fdq -e _out", wt)

    def demo():
        if pkgdir is not None:
            dst = os.path.join(wt, pkgdir, "zz_seeded_demo_test.go")
            shutil.copy(demo_go, dst)
            try:
                return sh("go test -vet=off -count=1 ./%s" % pkgdir, wt)
            finally:
                os.remove(dst)
        return sh("bash %s %s" % (demo_sh, wt), wt)

    # the patch must only touch non-test sources
    touched = re.findall(r"^\+\+\+ b/(\S+)", open(patch).read(), re.M)
    if not touched or any(t.endswith("_test.go") or t.startswith("_out") for t in touched):
        print("REJECT", ident, "patch touches", touched); return 1
    clean()
    rc, o = sh("go build ./... && go test -vet=off -count=1 ./...", wt)
    if rc != 0:
        print("REJECT", ident, "baseline fails on the clean tree\n", o[-800:]); return 1
    rc, o = demo()
    if rc != 0:
        print("REJECT", ident, "demonstration fails on the CLEAN tree\n", o[-1500:]); return 1
    rc, o = sh("git apply %s" % patch, wt)
    if rc != 0:
        print("REJECT", ident, "patch does not apply\n", o[-800:]); return 1
    rc, o = sh("go build ./... && go test -vet=off -count=1 ./...", wt)
    if rc != 0:
        clean(); print("REJECT", ident, "build or pinned tests fail with the patch\n", o[-1500:]); return 1
    ntests = 0
    rc2, o2 = sh("go test -vet=off -count=1 -v ./... | grep -c '^ *--- PASS'", wt)
    try:
        ntests = int(o2.strip().splitlines()[-1])
    except Exception:
        pass
    rc, o = demo()
    clean()
    if rc == 0:
        print("REJECT", ident, "demonstration PASSES with the patch"); return 1
    fail_tail = o[-600:]
    dst = os.path.join(VERIF, "seeded", ident)
    os.makedirs(dst, exist_ok=True)
    shutil.copy(patch, os.path.join(dst, "patch.diff"))
    if pkgdir is not None:
        with open(os.path.join(dst, "demo_test.go.txt"), "w") as f:
            f.write("// copy as %s/zz_seeded_demo_test.go; run: go test -vet=off -count=1 ./%s\n" % (pkgdir, pkgdir))
            f.write(open(demo_go).read())
    else:
        shutil.copy(demo_sh, os.path.join(dst, "demo.sh"))
    head = subprocess.run("git rev-parse --short HEAD", shell=True, cwd=wt, stdout=subprocess.PIPE).stdout.decode().strip()
    m2 = {
        "id": ident,
        "property": meta.get("property", ident.split("-")[0]),
        "title": meta.get("title", ""),
        "needs_to_manifest": meta.get("needs", meta.get("needs_to_manifest", "")),
        "files": touched,
        "demo": meta.get("demo", ""),
        "why_tests_pass": meta.get("why_tests_pass", ""),
        "check_property": meta.get("property", ident.split("-")[0]),
        "confirmed_by_verifier": "in the scratch worktree (HEAD %s): clean tree: go build, go test -vet=off -count=1 ./... pass, demonstration passes; git apply patch.diff: go build ok, pinned tests pass (%d PASS lines), demonstration fails (%s); git checkout -- ." % (head, ntests, " ".join(fail_tail.split())[-220:]),
    }
    json.dump(m2, open(os.path.join(dst, "meta.json"), "w"), indent=1)
    print("KEPT", ident, "->", dst)
    return 0


if __name__ == "__main__":
    sys.exit(main())
