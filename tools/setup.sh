#!/bin/bash
# Builds the parts of the framework that do not depend on /repo: the import
# rewriter. Everything else is rebuilt from /repo's working tree by every check.
set -euo pipefail
cd "$(dirname "$0")/.."
export GOFLAGS=-mod=mod GOPROXY=off GOSUMDB=off GOTOOLCHAIN=local CGO_ENABLED=0
mkdir -p bin evidence replays
(cd tools/rewrite && go build -o ../../bin/rewrite .)
echo "setup ok"
