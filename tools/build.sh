#!/bin/bash
# build.sh <outdir>: copies /repo's current working tree to a scratch
# directory, adds the simulator, substitutes the os-level imports of cmd/**,
# builds e1, e2 and an unmodified gts into <outdir>, removes the scratch copy.
# Exit 2 on any trouble (never a VIOLATION).
set -uo pipefail
VERIF="$(cd "$(dirname "$0")/.." && pwd)"
REPO="${VERIF_REPO:-/repo}"
OUT="$1"
export GOFLAGS=-mod=mod GOPROXY=off GOSUMDB=off GOTOOLCHAIN=local CGO_ENABLED=0
[ -x "$VERIF/bin/rewrite" ] || "$VERIF/tools/setup.sh" >/dev/null || { echo "HARNESS-ERROR: setup failed"; exit 2; }
mkdir -p "$OUT"
S="$(mktemp -d /tmp/verif-build.XXXXXX)"
trap 'rm -rf "$S"' EXIT
rsync -a --exclude .git "$REPO"/ "$S/src/" || { echo "HARNESS-ERROR: copy of $REPO failed"; exit 2; }
cd "$S/src"
fail() { echo "HARNESS-ERROR: $1"; exit 2; }
if [ "${VERIF_NEED_REAL:-0}" = 1 ]; then
  go build -trimpath -o "$OUT/gts-real" ./cmd/gts >"$S/real.log" 2>&1 || { cat "$S/real.log"; fail "building the unmodified gts failed"; }
fi
mkdir -p internal/verifsim
cp -r "$VERIF"/sim/* internal/verifsim/
rm -rf internal/verifsim/e1main
WANT="${VERIF_ENGINES:-e1 e2}"
pids=()
if [[ " $WANT " == *" e2 "* ]]; then
  ( go build -trimpath -o "$OUT/e2" ./internal/verifsim/cmd/e2 >"$S/e2.log" 2>&1 ) & pids+=($!)
fi
if [[ " $WANT " == *" selftest "* ]]; then
  ( go build -trimpath -o "$OUT/selftest" ./internal/verifsim/cmd/selftest >"$S/st.log" 2>&1 ) & pids+=($!)
fi
if [[ " $WANT " == *" e1 "* ]]; then
  "$VERIF/bin/rewrite" "$S/src" >"$S/rw.log" 2>&1 || { cat "$S/rw.log"; fail "import substitution failed"; }
  cp "$VERIF"/sim/e1main/*.go cmd/gts/
  ( go build -trimpath -o "$OUT/e1" ./cmd/gts >"$S/e1.log" 2>&1 ) & pids+=($!)
fi
rc=0
for p in "${pids[@]}"; do wait "$p" || rc=1; done
if [ $rc -ne 0 ]; then
  cat "$S"/e1.log "$S"/e2.log "$S"/st.log 2>/dev/null
  fail "go build of the simulator binaries failed"
fi
exit 0
