#!/bin/bash
# revert_sweep.sh: for every fix: commit in /repo, undo it in a scratch copy
# and require the check of the property it was made for to report a
# violation again (a status=fixed entry suppresses nothing).
set -uo pipefail
VERIF="$(cd "$(dirname "$0")/.." && pwd)"
out="$VERIF/mutation/revert.tsv"; mkdir -p "$VERIF/mutation"; : > "$out"
S="$(mktemp -d /tmp/verif-rev.XXXXXX)"; trap 'rm -rf "$S"' EXIT
python3 - "$VERIF/known_findings.json" > "$S/list" <<'PY'
import json,sys
seen=set()
for f in json.load(open(sys.argv[1]))["findings"]:
    if f["status"]=="fixed" and (f["commit"],f["property"]) not in seen:
        seen.add((f["commit"],f["property"])); print(f["commit"],f["property"])
PY
while read -r c prop; do
  rm -rf "$S/repo" "$S/root"; mkdir -p "$S/root"; rsync -a --exclude .git /repo/ "$S/repo/"
  if ! git -C /repo show "$c" --format= | (cd "$S/repo" && patch -R -p1 -s --no-backup-if-mismatch >/dev/null 2>&1); then
    printf '%s\t%s\tdoes-not-revert-cleanly\n' "$c" "$prop" >> "$out"; continue; fi
  cp "$VERIF/known_findings.json" "$S/root/"
  VERIF_REPO="$S/repo" VERIF_ROOT="$S/root" "$VERIF/check" "$prop" quick >"$S/log" 2>&1; st=$?
  cls=$(grep '^violation' "$S/log" | sed 's/ occurrences.*//' | cut -c1-90 | head -3 | tr '\n' ';')
  printf '%s\t%s\texit=%d\t%s\t%s\n' "$c" "$prop" $st "$(git -C /repo log -1 --format=%s "$c" | cut -c1-60)" "$cls" >> "$out"
done < "$S/list"
cat "$out"
