// mutate enumerates mechanical mutants of one Go source file.
//   mutate count <file>        prints the number of mutants
//   mutate apply <file> <k>    prints the file with mutant k applied and, on
//                              stderr, a one-line description
// Operators: negate an if condition; swap a comparison/arith/logic operator;
// nudge an integer literal; delete an expression or assignment statement;
// replace a returned error by nil.
package main

import (
	"bytes"
	"fmt"
	"go/ast"
	"go/parser"
	"go/printer"
	"go/token"
	"os"
	"strconv"
)

type mutant struct {
	desc  string
	apply func()
	undo  func()
}

var swaps = map[token.Token]token.Token{
	token.LSS: token.LEQ, token.LEQ: token.LSS, token.GTR: token.GEQ, token.GEQ: token.GTR,
	token.EQL: token.NEQ, token.NEQ: token.EQL, token.ADD: token.SUB, token.SUB: token.ADD,
	token.LAND: token.LOR, token.LOR: token.LAND, token.MUL: token.QUO,
}

func collect(fset *token.FileSet, f *ast.File) []mutant {
	var ms []mutant
	pos := func(n ast.Node) string { return fset.Position(n.Pos()).String() }
	ast.Inspect(f, func(n ast.Node) bool {
		switch v := n.(type) {
		case *ast.IfStmt:
			old := v.Cond
			ms = append(ms, mutant{pos(v) + ": negate if condition", func() { v.Cond = &ast.UnaryExpr{Op: token.NOT, X: &ast.ParenExpr{X: old}} }, func() { v.Cond = old }})
		case *ast.BinaryExpr:
			if to, ok := swaps[v.Op]; ok {
				old := v.Op
				ms = append(ms, mutant{fmt.Sprintf("%s: %s -> %s", pos(v), old, to), func() { v.Op = to }, func() { v.Op = old }})
			}
		case *ast.BasicLit:
			if v.Kind == token.INT {
				if i, err := strconv.Atoi(v.Value); err == nil {
					old := v.Value
					nv := i + 1
					if i == 1 {
						nv = 0
					}
					ms = append(ms, mutant{fmt.Sprintf("%s: %d -> %d", pos(v), i, nv), func() { v.Value = strconv.Itoa(nv) }, func() { v.Value = old }})
					if i > 1 {
						ms = append(ms, mutant{fmt.Sprintf("%s: %d -> %d", pos(v), i, i-1), func() { v.Value = strconv.Itoa(i - 1) }, func() { v.Value = old }})
					}
				}
			}
		case *ast.BlockStmt:
			for i, st := range v.List {
				i, st := i, st
				switch st.(type) {
				case *ast.ExprStmt, *ast.AssignStmt, *ast.IncDecStmt, *ast.DeferStmt:
					if as, ok := st.(*ast.AssignStmt); ok && as.Tok == token.DEFINE {
						continue // removing a declaration never compiles
					}
					ms = append(ms, mutant{pos(st) + ": delete statement", func() { v.List[i] = &ast.EmptyStmt{Semicolon: st.Pos(), Implicit: true} }, func() { v.List[i] = st }})
				}
			}
		case *ast.ReturnStmt:
			for i, r := range v.Results {
				if id, ok := r.(*ast.Ident); ok && (id.Name == "err" || id.Name == "ret") {
					i, r := i, r
					ms = append(ms, mutant{pos(v) + ": return nil instead of " + id.Name, func() { v.Results[i] = ast.NewIdent("nil") }, func() { v.Results[i] = r }})
				}
			}
		}
		return true
	})
	return ms
}

func main() {
	if len(os.Args) < 3 {
		fmt.Fprintln(os.Stderr, "usage: mutate count <file> | apply <file> <k>")
		os.Exit(2)
	}
	fset := token.NewFileSet()
	f, err := parser.ParseFile(fset, os.Args[2], nil, parser.ParseComments)
	if err != nil {
		fmt.Fprintln(os.Stderr, err)
		os.Exit(2)
	}
	ms := collect(fset, f)
	switch os.Args[1] {
	case "count":
		fmt.Println(len(ms))
	case "apply":
		k, _ := strconv.Atoi(os.Args[3])
		if k < 0 || k >= len(ms) {
			os.Exit(2)
		}
		ms[k].apply()
		var buf bytes.Buffer
		if err := printer.Fprint(&buf, fset, f); err != nil {
			fmt.Fprintln(os.Stderr, err)
			os.Exit(2)
		}
		os.Stdout.Write(buf.Bytes())
		fmt.Fprintln(os.Stderr, ms[k].desc)
	}
}
