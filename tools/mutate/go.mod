module verif/mutate

go 1.21
