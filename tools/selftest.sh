#!/bin/bash
# ./check selftest <simfs|fidelity|determinism|sensitivity|all>
# Self-checks of the machinery itself. Exit 0 = fine, 2 = harness trouble.
set -uo pipefail
VERIF="$(cd "$(dirname "$0")/.." && pwd)"
export GOFLAGS=-mod=mod GOPROXY=off GOSUMDB=off GOTOOLCHAIN=local CGO_ENABLED=0
what="${1:-all}"
BIN="$VERIF/bin/selftest.$$"
TMPROOT="$(mktemp -d /tmp/verif-selftest.XXXXXX)"
trap 'rm -rf "$BIN" "$TMPROOT"' EXIT
rc=0
simfs() {
  VERIF_ENGINES=selftest "$VERIF/tools/build.sh" "$BIN" || exit 2
  "$BIN/selftest" simfs "${VERIF_SELFTEST_N:-20000}" "${VERIF_SEED:-1}" || rc=2
}
fidelity() {
  VERIF_NEED_REAL=1 VERIF_ENGINES=e1 "$VERIF/tools/build.sh" "$BIN" || exit 2
  "$BIN/e1" fidelity "${VERIF_SELFTEST_N:-400}" "$BIN/gts-real" "${VERIF_SEED:-1}" || rc=2
}
tracecheck() {
  # the unmodified binary under strace: its system calls on cache and temp
  # files must be the simulator's operations, one by one
  VERIF_NEED_REAL=1 VERIF_ENGINES=e1 "$VERIF/tools/build.sh" "$BIN" || exit 2
  "$BIN/e1" tracecheck "${VERIF_SELFTEST_N:-150}" "$BIN/gts-real" "${VERIF_SEED:-1}" || rc=2
}
parseq() {
  # parties of a par step that run one after the other must do exactly what
  # the same invocations do as a sequence (hand-over of process state)
  VERIF_ENGINES=e1 "$VERIF/tools/build.sh" "$BIN" || exit 2
  "$BIN/e1" parseq "${VERIF_SELFTEST_N:-1500}" "${VERIF_SEED:-1}" || rc=2
}
determinism() {
  # the same seeds, executed in separate OS processes under different worker
  # counts and GOMAXPROCS values, must give identical batch digests
  VERIF_ENGINES="e1 e2" "$VERIF/tools/build.sh" "$BIN" || exit 2
  cp "$VERIF/known_findings.json" "$TMPROOT/" 2>/dev/null
  for spec in "e1 C13 40" "e1 C14 120" "e2 C01 200" "e2 C07 40" "e2 C17 300"; do
    set -- $spec
    first=""
    for cfg in "1 1" "5 4" "16 16" "16 2" "3 1"; do
      set -- $spec $cfg
      for rep in 1 2; do
        out=$(VERIF_ROOT="$TMPROOT" VERIF_RUNS=$3 VERIF_WORKERS=$4 VERIF_GOMAXPROCS=$5 "$BIN/$1" batch $2 quick 2>&1) || { echo "$out" | tail -5; echo "SELFTEST-FAIL determinism: $2 exited non-zero"; rc=2; }
        d=$(python3 -c 'import json,sys; c=json.load(open(sys.argv[1]))["coverage"]; print(c["batch_digest"], c["evaluations"], c["distinct_nontrivial"], c["faults_fired_total"])' "$TMPROOT/evidence/$2.json")
        if [ -z "$first" ]; then first="$d"; fi
        if [ "$d" != "$first" ]; then echo "SELFTEST-FAIL determinism: $2 workers=$4 GOMAXPROCS=$5 rep=$rep gives [$d], expected [$first]"; rc=2; fi
      done
    done
    echo "selftest determinism: $2: $3 seeds x 10 executions (workers 1/3/5/16, GOMAXPROCS 1/2/4/16) identical: $first"
  done
  if grep -rn "sync\.Map\|\.Range(func" "$VERIF/sim" --include=*.go; then echo "SELFTEST-FAIL determinism: sync.Map found in harness sources"; rc=2; fi
}
sensitivity() {
  # every seeded defect kept under /verif/seeded must be reported by the quick
  # tier of the check of the property it breaks (unless meta.json says the
  # quick tier is not expected to reach it)
  for d in "$VERIF"/seeded/*/; do
    [ -f "$d/patch.diff" ] || continue
    id=$(basename "$d")
    if [ -n "${VERIF_SENS_ONLY:-}" ] && [[ " $VERIF_SENS_ONLY " != *" $id "* ]]; then continue; fi
    prop=$(python3 -c 'import json,sys; m=json.load(open(sys.argv[1])); print(m.get("check_property", m["property"]))' "$d/meta.json")
    expect=$(python3 -c 'import json,sys; print(json.load(open(sys.argv[1])).get("caught_by_quick", True))' "$d/meta.json")
    superseded=$(python3 -c 'import json,sys; print(json.load(open(sys.argv[1])).get("superseded_by", ""))' "$d/meta.json")
    if [ -n "$superseded" ]; then echo "selftest sensitivity: $id ($prop): not applicable to this tree any more - $superseded" | cut -c1-260; continue; fi
    pf="$d/patch.diff"; [ -f "$d/patch.rebased.diff" ] && pf="$d/patch.rebased.diff"
    scratch="$TMPROOT/repo-$id"
    rsync -a --exclude .git /repo/ "$scratch/" || exit 2
    if ! (cd "$scratch" && patch -p1 -s < "$pf"); then echo "SELFTEST-FAIL sensitivity: $id does not apply (run tools/rebase_seeded.py)"; rc=2; rm -rf "$scratch"; continue; fi
    mkdir -p "$TMPROOT/root-$id"; cp "$VERIF/known_findings.json" "$TMPROOT/root-$id/"
    out=$(VERIF_REPO="$scratch" VERIF_ROOT="$TMPROOT/root-$id" "$VERIF/check" "$prop" quick 2>&1); st=$?
    rm -rf "$scratch"
    neutral=$(python3 -c 'import json,sys; print(json.load(open(sys.argv[1])).get("neutralised_by", ""))' "$d/meta.json")
    if [ -n "$neutral" ]; then
      if [ $st -ne 0 ]; then echo "SELFTEST-FAIL sensitivity: $id is recorded as neutralised by $neutral but the check exits $st"; rc=2; else echo "selftest sensitivity: $id ($prop): neutralised by fix $neutral, check exits 0 as expected"; fi
    elif [ "$expect" = "True" ] && [ $st -ne 1 ]; then echo "SELFTEST-FAIL sensitivity: $id ($prop) not reported (exit $st)"; echo "$out" | tail -3; rc=2;
    else echo "selftest sensitivity: $id ($prop): exit $st $(echo "$out" | grep -c '^VIOLATION') violation line(s)"; echo "$out" | grep '^violation class' | sed 's/ occurrences=.*//' | cut -c1-150 | head -${VERIF_SENS_SHOW:-0}; fi
    rm -rf "$TMPROOT/root-$id"
  done
}
case "$what" in
  simfs) simfs ;;
  fidelity) fidelity ;;
  tracecheck) tracecheck ;;
  parseq) parseq ;;
  determinism) determinism ;;
  sensitivity) sensitivity ;;
  all) simfs; fidelity; tracecheck; parseq; determinism; sensitivity ;;
  *) echo "unknown selftest $what"; exit 2 ;;
esac
[ $rc -eq 0 ] && echo "selftest $what: ok"
exit $rc
