// rewrite edits only the import specs of the non-test Go files under
// <root>/cmd so that they talk to the simulator shims instead of os,
// io/ioutil, path/filepath and go-isatty, and renames func main of cmd/gts
// so that the E1 driver can own main. No statement is touched.
package main

import (
	"bytes"
	"fmt"
	"go/ast"
	"go/parser"
	"go/printer"
	"go/token"
	"os"
	"path/filepath"
	"strconv"
	"strings"
)

const shim = "github.com/go-gts/gts/internal/verifsim/"

var subst = map[string][2]string{
	"os":                          {"os", shim + "simos"},
	"io/ioutil":                   {"ioutil", shim + "simioutil"},
	"path/filepath":               {"filepath", shim + "simfilepath"},
	"github.com/mattn/go-isatty": {"isatty", shim + "simisatty"},
}

func main() {
	if len(os.Args) != 2 {
		fmt.Fprintln(os.Stderr, "usage: rewrite <root of scratch copy>")
		os.Exit(2)
	}
	root := os.Args[1]
	n := 0
	mainRenamed := false
	err := filepath.Walk(filepath.Join(root, "cmd"), func(path string, info os.FileInfo, err error) error {
		if err != nil {
			return err
		}
		if info.IsDir() || !strings.HasSuffix(path, ".go") || strings.HasSuffix(path, "_test.go") {
			return nil
		}
		if strings.Contains(path, string(filepath.Separator)+"togo"+string(filepath.Separator)) {
			return nil
		}
		fset := token.NewFileSet()
		f, err := parser.ParseFile(fset, path, nil, parser.ParseComments)
		if err != nil {
			return err
		}
		changed := false
		for _, im := range f.Imports {
			p, _ := strconv.Unquote(im.Path.Value)
			if s, ok := subst[p]; ok {
				if im.Name == nil {
					im.Name = ast.NewIdent(s[0])
				}
				im.Path.Value = strconv.Quote(s[1])
				changed = true
			}
		}
		if filepath.Base(filepath.Dir(path)) == "gts" && f.Name.Name == "main" {
			for _, d := range f.Decls {
				if fd, ok := d.(*ast.FuncDecl); ok && fd.Recv == nil && fd.Name.Name == "main" {
					fd.Name.Name = "gtsRealMain"
					changed = true
					mainRenamed = true
				}
			}
		}
		if !changed {
			return nil
		}
		var buf bytes.Buffer
		if err := printer.Fprint(&buf, fset, f); err != nil {
			return err
		}
		n++
		return os.WriteFile(path, buf.Bytes(), 0644)
	})
	if err != nil {
		fmt.Fprintln(os.Stderr, "rewrite:", err)
		os.Exit(2)
	}
	if !mainRenamed {
		fmt.Fprintln(os.Stderr, "rewrite: func main of cmd/gts not found")
		os.Exit(2)
	}
	fmt.Printf("rewrite: %d files\n", n)
}
