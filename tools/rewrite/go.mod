module verif/rewrite

go 1.21
