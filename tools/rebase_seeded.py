#!/usr/bin/env python3
"""Carry the seeded defects along as /repo gets repaired.

A seeded defect is a patch against the tree of its time. Repairs of genuine
defects change the same files, and some patches stop applying. For every
seeded/<id>/patch.diff that no longer applies to /repo's HEAD this tool

  1. checks the tree it was written against out in a scratch worktree,
     applies the patch there and commits it,
  2. cherry-picks that commit onto HEAD in a second scratch worktree (a real
     three-way merge), and
  3. if that merges cleanly, builds and passes the pinned tests, writes the
     result as seeded/<id>/patch.rebased.diff (the sensitivity self-test
     prefers it); otherwise records in meta.json that the code the change
     touched has since been rewritten (superseded_by: the fix commits that
     touched the conflicting files), and the self-test skips it.

Nothing is changed in /repo; both worktrees are removed again.
"""
import glob, json, os, re, subprocess, sys, tempfile

VERIF = os.path.dirname(os.path.dirname(os.path.abspath(__file__)))
ENV = dict(os.environ, GOFLAGS="-mod=mod", GOPROXY="off", GOSUMDB="off", GOTOOLCHAIN="local",
           GIT_AUTHOR_NAME="verif", GIT_AUTHOR_EMAIL="verif@example", GIT_COMMITTER_NAME="verif", GIT_COMMITTER_EMAIL="verif@example")


def sh(cmd, cwd=None):
    p = subprocess.run(cmd, shell=True, cwd=cwd, env=ENV, stdout=subprocess.PIPE, stderr=subprocess.STDOUT)
    return p.returncode, p.stdout.decode(errors="replace")


def applies(patch, tree="/repo"):
    rc, _ = sh("git apply --check %s" % patch, tree)
    return rc == 0


def run_demo(d, tree):
    """exit status of the kept demonstration in tree, None if there is none"""
    go = os.path.join(d, "demo_test.go.txt")
    shf = os.path.join(d, "demo.sh")
    if os.path.exists(go):
        text = open(go).read()
        m = re.search(r"^package\s+(\w+)", text, re.M)
        pkg = m.group(1) if m else ""
        pkgdir = {"seqio": "seqio", "seqio_test": "seqio", "gts": ".", "gts_test": ".", "cache": "cmd/cache", "cache_test": "cmd/cache", "main": "cmd/gts"}.get(pkg)
        if pkgdir is None:
            return None
        dst = os.path.join(tree, pkgdir, "zz_seeded_demo_test.go")
        lines = text.split("\n")
        if lines and lines[0].startswith("//") and "copy" in lines[0]:
            lines = lines[1:]
        open(dst, "w").write("\n".join(lines))
        try:
            return sh("go test -vet=off -count=1 ./%s" % pkgdir, tree)[0]
        finally:
            os.remove(dst)
    if os.path.exists(shf):
        return sh("bash %s %s" % (shf, tree), tree)[0]
    return None


VERIFY = False


def main():
    global VERIFY
    args = sys.argv[1:]
    if "--verify-demos" in args:
        VERIFY = True
        args.remove("--verify-demos")
    only = set(args)
    head = sh("git rev-parse --short HEAD", "/repo")[1].strip()
    for d in sorted(glob.glob(os.path.join(VERIF, "seeded", "*", ""))):
        ident = os.path.basename(os.path.dirname(d))
        if only and ident not in only:
            continue
        patch = os.path.join(d, "patch.diff")
        mp = os.path.join(d, "meta.json")
        meta = json.load(open(mp))
        rebased = os.path.join(d, "patch.rebased.diff")
        if applies(patch):
            if os.path.exists(rebased):
                os.remove(rebased)
            if meta.pop("superseded_by", None) is not None:
                json.dump(meta, open(mp, "w"), indent=1)
            if VERIFY and not meta.get("neutralised_by"):
                # the patch applies: does the change still do what it did? A
                # repair elsewhere may have taken its effect away (the
                # demonstration passes with the change applied).
                s = tempfile.mkdtemp(prefix="verif-demo-")
                wh = os.path.join(s, "head")
                try:
                    sh("git worktree add -q --detach %s HEAD" % wh, "/repo")
                    rc, o = sh("git apply %s && go build ./..." % patch, wh)
                    if rc == 0:
                        with_patch = run_demo(d, wh)
                        if with_patch == 0:
                            meta["neutralised_by"] = "a repair made since: on %s the change applies and builds, and its own demonstration passes with it" % head
                            json.dump(meta, open(mp, "w"), indent=1)
                            print(ident, "NEUTRALISED: demonstration passes with the change applied on", head)
                        else:
                            print(ident, "still breaks (demonstration exit %s)" % with_patch)
                finally:
                    sh("git worktree remove --force %s" % wh, "/repo")
                    sh("git worktree prune", "/repo")
                    sh("rm -rf %s" % s)
            continue
        m = re.search(r"HEAD ([0-9a-f]{7,})", meta.get("confirmed_by_verifier", ""))
        base = m.group(1) if m else None
        if base is None or sh("git cat-file -e %s^{commit}" % base, "/repo")[0] != 0:
            print(ident, "no base commit recorded: cannot be carried along")
            meta["superseded_by"] = "unknown base; patch no longer applies at " + head
            json.dump(meta, open(mp, "w"), indent=1)
            continue
        s = tempfile.mkdtemp(prefix="verif-rebase-")
        wb, wh = os.path.join(s, "base"), os.path.join(s, "head")
        try:
            sh("git worktree add -q --detach %s %s" % (wb, base), "/repo")
            rc, o = sh("git apply %s && git add -A && git commit -q -m seeded-%s" % (patch, ident), wb)
            if rc != 0:
                print(ident, "does not even apply to its base", base, o[-200:])
                continue
            c = sh("git rev-parse HEAD", wb)[1].strip()
            sh("git worktree add -q --detach %s HEAD" % wh, "/repo")
            rc, o = sh("git cherry-pick --no-commit %s" % c, wh)
            if rc == 0:
                rc, o = sh("go build ./... && go test -vet=off -count=1 ./...", wh)
            if rc == 0:
                # the demonstration must still tell the two trees apart
                diff = sh("git diff HEAD", wh)[1]
                with_patch = run_demo(d, wh)
                sh("git reset -q --hard HEAD && git clean -fdq", wh)
                without = run_demo(d, wh)
                if with_patch is not None and not (with_patch != 0 and without == 0):
                    rc, o = 1, "demonstration: exit %s with the carried-over change, %s without" % (with_patch, without)
            if rc == 0:
                open(rebased, "w").write(diff)
                meta.pop("superseded_by", None)
                meta["rebased_onto"] = head
                json.dump(meta, open(mp, "w"), indent=1)
                print(ident, "rebased onto", head)
            else:
                if o.startswith("demonstration:"):
                    meta.pop("rebased_onto", None)
                    meta["superseded_by"] = "carried over onto %s the change no longer does what it did (%s): the code around it was rewritten" % (head, o)
                    if os.path.exists(rebased):
                        os.remove(rebased)
                    json.dump(meta, open(mp, "w"), indent=1)
                    print(ident, "SUPERSEDED:", meta["superseded_by"][:160])
                    continue
                files = re.findall(r"CONFLICT \([^)]*\): Merge conflict in (\S+)", o) or re.findall(r"^\+\+\+ b/(\S+)", open(patch).read(), re.M)
                fixes = []
                for f in files:
                    log = sh("git log --format='%%h %%s' %s..HEAD -- %s" % (base, f), "/repo")[1]
                    fixes += [l for l in log.splitlines() if " fix:" in l]
                seen, uniq = set(), []
                for l in fixes:
                    if l not in seen:
                        seen.add(l)
                        uniq.append(l)
                meta["superseded_by"] = "the code this change touches (%s) was rewritten after %s by: %s" % (", ".join(files), base, "; ".join(uniq[:6]) or "later commits")
                if os.path.exists(rebased):
                    os.remove(rebased)
                json.dump(meta, open(mp, "w"), indent=1)
                print(ident, "SUPERSEDED:", meta["superseded_by"][:160])
        finally:
            sh("git worktree remove --force %s" % wb, "/repo")
            sh("git worktree remove --force %s" % wh, "/repo")
            sh("git worktree prune", "/repo")
            sh("rm -rf %s" % s)


if __name__ == "__main__":
    main()
