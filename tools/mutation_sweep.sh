#!/bin/bash
# mutation_sweep.sh <file relative to /repo> <check spec>...
# check spec: <property>[:<runs>]   e.g. C13 C14:2000
# For every mechanical mutant of the file (tools/mutate): build, run the pinned
# tests of the affected packages, and if they still pass run the named checks'
# quick tier against a scratch copy. Appends one line per mutant to
# mutation/<file with _>.tsv : k <TAB> status <TAB> description
# status: nobuild | killed-by-tests | caught:<property> | SURVIVED
set -uo pipefail
VERIF="$(cd "$(dirname "$0")/.." && pwd)"
export GOFLAGS=-mod=mod GOPROXY=off GOSUMDB=off GOTOOLCHAIN=local CGO_ENABLED=0
file="$1"; shift
[ -x "$VERIF/bin/mutate" ] || (cd "$VERIF/tools/mutate" && go build -o "$VERIF/bin/mutate" .) || exit 2
[ -x "$VERIF/bin/rewrite" ] || "$VERIF/tools/setup.sh" >/dev/null
out="$VERIF/mutation/$(echo "$file" | tr '/' '_').tsv"
mkdir -p "$VERIF/mutation"
n=$("$VERIF/bin/mutate" count "/repo/$file")
start=0
[ -f "$out" ] && [ -z "${VERIF_MUT_ONLY:-}" ] && start=$(wc -l < "$out")
S="$(mktemp -d /tmp/verif-mut.XXXXXX)"
trap 'rm -rf "$S"' EXIT
pkgdir=$(dirname "$file")
for ((k=start; k<n; k++)); do
  if [ -n "${VERIF_MUT_ONLY:-}" ] && [[ " $VERIF_MUT_ONLY " != *" $k "* ]]; then continue; fi
  rm -rf "$S/repo" "$S/root"; mkdir -p "$S/root"
  rsync -a --exclude .git /repo/ "$S/repo/"
  desc=$("$VERIF/bin/mutate" apply "/repo/$file" $k 2>&1 >"$S/repo/$file" | tail -1)
  if ! (cd "$S/repo" && go build ./... >/dev/null 2>&1); then printf '%d\tnobuild\t%s\n' $k "$desc" >> "$out"; continue; fi
  if ! (cd "$S/repo" && timeout 900 go test -vet=off -count=1 ./... >/dev/null 2>&1); then printf '%d\tkilled-by-tests\t%s\n' $k "$desc" >> "$out"; continue; fi
  status="SURVIVED"
  for spec in "$@"; do
    prop="${spec%%:*}"; runs=""; [[ "$spec" == *:* ]] && runs="${spec##*:}"
    cp "$VERIF/known_findings.json" "$S/root/" 2>/dev/null
    VERIF_RUNS="$runs" VERIF_REPO="$S/repo" VERIF_ROOT="$S/root" timeout 900 "$VERIF/check" "$prop" quick >"$S/check.log" 2>&1; st=$?
    if [ $st -eq 1 ]; then cls=$(grep -m1 '^violation' "$S/check.log" | sed 's/ occurrences.*//' | cut -c1-120); status="caught:$prop $cls"; break; fi
    if [ $st -ne 0 ] && grep -q "did not come back within" "$S/check.log"; then status="caught:$prop hang (watchdog, exit $st)"; break; fi
    if [ $st -ne 0 ]; then status="harness-exit-$st:$prop"; break; fi
  done
  printf '%d\t%s\t%s\n' $k "$status" "$desc" >> "$out"
done
echo "mutation sweep of $file done: $(cut -f2 "$out" | cut -d: -f1 | sort | uniq -c | tr '\n' ' ')"
