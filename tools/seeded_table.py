#!/usr/bin/env python3
# Regenerates the table of seeded defects in DESIGN.md §13 from seeded/*/meta.json.
import json, glob, os, re
rows = ["| id | breaks | what it is | needs | caught by (quick tier) |", "|---|---|---|---|---|"]
for d in sorted(glob.glob(os.path.join(os.path.dirname(__file__), "..", "seeded", "*", ""))):
    m = json.load(open(os.path.join(d, "meta.json")))
    def cell(x, n):
        x = re.sub(r"\s+", " ", str(x)).replace("|", "\\|")
        return x if len(x) <= n else x[: n - 1] + "…"
    caught = ("`./check %s quick`: " % m.get("check_property", m["property"])) + m.get("how_caught", "")
    if not m.get("caught_by_quick", True):
        caught = "NOT caught by quick; " + m.get("how_caught", "")
    if m.get("neutralised_by"):
        caught = "(when it was written: " + caught + ") NEUTRALISED: the change still applies but no longer breaks the property - " + m["neutralised_by"] + "; the self-test expects the check to pass with it"
    elif m.get("superseded_by"):
        caught = "(when it was written: " + caught + ") NO LONGER APPLICABLE: " + m["superseded_by"]
    elif m.get("rebased_onto"):
        caught += " [carried over onto " + m["rebased_onto"] + " by a three-way merge]"
    rows.append("| %s | %s | %s | %s | %s |" % (m["id"], m["property"], cell(m.get("title", ""), 110), cell(m.get("needs_to_manifest", ""), 160), cell(caught, 300)))
table = "\n".join(rows)
p = os.path.join(os.path.dirname(__file__), "..", "DESIGN.md")
s = open(p).read()
if "SEEDED_TABLE" in s:
    s = s.replace("SEEDED_TABLE", "<!-- seeded-table-begin -->\n" + table + "\n<!-- seeded-table-end -->")
else:
    s = re.sub(r"<!-- seeded-table-begin -->.*<!-- seeded-table-end -->", "<!-- seeded-table-begin -->\n" + table.replace("\\", "\\\\") + "\n<!-- seeded-table-end -->", s, flags=re.S)
open(p, "w").write(s)
print("table rows:", len(rows) - 2)
