// Package simfilepath stands in for path/filepath: the lexical functions are
// the real ones, the functions that touch the disk walk the simulated disk.
package simfilepath

import (
	"io/fs"
	real "path/filepath"

	"github.com/go-gts/gts/internal/verifsim/simos"
)

const (
	Separator     = '/'
	ListSeparator = ':'
)

var (
	SkipDir       = real.SkipDir
	SkipAll       = fs.SkipAll
	ErrBadPattern = real.ErrBadPattern
)

type WalkFunc = real.WalkFunc

func Join(elem ...string) string               { return real.Join(elem...) }
func Base(p string) string                     { return real.Base(p) }
func Dir(p string) string                      { return real.Dir(p) }
func Ext(p string) string                      { return real.Ext(p) }
func Clean(p string) string                    { return real.Clean(p) }
func Split(p string) (string, string)          { return real.Split(p) }
func SplitList(p string) []string              { return real.SplitList(p) }
func IsAbs(p string) bool                      { return real.IsAbs(p) }
func ToSlash(p string) string                  { return real.ToSlash(p) }
func FromSlash(p string) string                { return real.FromSlash(p) }
func VolumeName(p string) string               { return "" }
func Match(pattern, name string) (bool, error) { return real.Match(pattern, name) }
func Rel(base, targ string) (string, error)    { return real.Rel(base, targ) }
func Abs(p string) (string, error)             { return simos.Clean(p), nil }
func EvalSymlinks(p string) (string, error)    { return p, nil }

// Walk mirrors filepath.Walk (lexical order, Lstat on the root first).
func Walk(root string, fn WalkFunc) error {
	info, err := simos.Lstat(root)
	if err != nil {
		err = fn(root, nil, err)
	} else {
		err = walk(root, info, fn)
	}
	if err == SkipDir || err == SkipAll {
		return nil
	}
	return err
}

func walk(path string, info fs.FileInfo, fn WalkFunc) error {
	if !info.IsDir() {
		return fn(path, info, nil)
	}
	entries, err := simos.ListDirInfo(path)
	err1 := fn(path, info, err)
	if err != nil || err1 != nil {
		return err1
	}
	for _, e := range entries {
		filename := Join(path, e.Name())
		fi, err := simos.Lstat(filename)
		if err != nil {
			if err := fn(filename, fi, err); err != nil && err != SkipDir {
				return err
			}
		} else {
			err = walk(filename, fi, fn)
			if err != nil {
				if !fi.IsDir() || err != SkipDir {
					return err
				}
			}
		}
	}
	return nil
}

// Glob matches against the simulated disk (single directory level patterns).
func Glob(pattern string) ([]string, error) {
	dir, file := Split(pattern)
	if dir == "" {
		dir = "."
	}
	entries, err := simos.ListDirInfo(Clean(dir))
	if err != nil {
		return nil, nil
	}
	var out []string
	for _, e := range entries {
		ok, err := Match(file, e.Name())
		if err != nil {
			return nil, err
		}
		if ok {
			out = append(out, Join(dir, e.Name()))
		}
	}
	return out, nil
}
