package simos

import (
	"time"
	"errors"
	"fmt"
	"io"
	"io/fs"
	realos "os"
	"sort"
	"strings"
	"syscall"
)

// Names re-exported so that code written against package os compiles
// unchanged against this package.
type (
	FileInfo     = fs.FileInfo
	FileMode     = fs.FileMode
	DirEntry     = fs.DirEntry
	PathError    = fs.PathError
	SyscallError = realos.SyscallError
	LinkError    = realos.LinkError
	Signal       = realos.Signal
)

const (
	O_RDONLY = realos.O_RDONLY
	O_WRONLY = realos.O_WRONLY
	O_RDWR   = realos.O_RDWR
	O_APPEND = realos.O_APPEND
	O_CREATE = realos.O_CREATE
	O_EXCL   = realos.O_EXCL
	O_SYNC   = realos.O_SYNC
	O_TRUNC  = realos.O_TRUNC

	ModeDir        = fs.ModeDir
	ModeAppend     = fs.ModeAppend
	ModeExclusive  = fs.ModeExclusive
	ModeTemporary  = fs.ModeTemporary
	ModeSymlink    = fs.ModeSymlink
	ModeDevice     = fs.ModeDevice
	ModeNamedPipe  = fs.ModeNamedPipe
	ModeSocket     = fs.ModeSocket
	ModeSetuid     = fs.ModeSetuid
	ModeSetgid     = fs.ModeSetgid
	ModeCharDevice = fs.ModeCharDevice
	ModeSticky     = fs.ModeSticky
	ModeIrregular  = fs.ModeIrregular
	ModeType       = fs.ModeType
	ModePerm       = fs.ModePerm

	PathSeparator     = '/'
	PathListSeparator = ':'
	DevNull           = "/dev/null"

	SEEK_SET = 0
	SEEK_CUR = 1
	SEEK_END = 2
)

var (
	ErrInvalid          = fs.ErrInvalid
	ErrPermission       = fs.ErrPermission
	ErrExist            = fs.ErrExist
	ErrNotExist         = fs.ErrNotExist
	ErrClosed           = fs.ErrClosed
	ErrNoDeadline       = realos.ErrNoDeadline
	ErrDeadlineExceeded = realos.ErrDeadlineExceeded
	ErrProcessDone      = realos.ErrProcessDone

	Interrupt = realos.Interrupt
	Kill      = realos.Kill
)

// Standard streams of the current simulated process.
var (
	Stdin  *File
	Stdout *File
	Stderr *File
	Args   []string
)

func IsExist(err error) bool                    { return realos.IsExist(err) }
func IsNotExist(err error) bool                 { return realos.IsNotExist(err) }
func IsPermission(err error) bool               { return realos.IsPermission(err) }
func IsTimeout(err error) bool                  { return realos.IsTimeout(err) }
func IsPathSeparator(c uint8) bool              { return c == '/' }
func NewSyscallError(s string, err error) error { return realos.NewSyscallError(s, err) }

// Exit unwinds the simulated process with a status.
func Exit(code int) { panic(ExitSentinel{code}) }

func Getpid() int                 { return 4000 + W.P.ID }
func Getppid() int                { return 1 }
func Getuid() int                 { return 1000 }
func Getgid() int                 { return 1000 }
func Geteuid() int                { return 1000 }
func Getegid() int                { return 1000 }
func Getpagesize() int            { return 4096 }
func Hostname() (string, error)   { return "simhost", nil }
func Getwd() (string, error)      { return "/u", nil }
func Chdir(string) error          { return errors.New("simos: chdir not simulated") }
func Executable() (string, error) { return "/usr/bin/gts", nil }

func Getenv(k string) string { v, _ := LookupEnv(k); return v }

func LookupEnv(k string) (string, bool) {
	w := W
	switch k {
	case "XDG_CACHE_HOME":
		if w.Env.CacheHome != "" {
			return w.Env.CacheHome, true
		}
		return "", false
	case "TMPDIR":
		return w.Env.TmpDir, w.Env.TmpDir != ""
	case "HOME":
		return "", false
	}
	v, ok := w.Env.Vars[k]
	return v, ok
}

func Setenv(k, v string) error {
	if W.Env.Vars == nil {
		W.Env.Vars = map[string]string{}
	}
	W.Env.Vars[k] = v
	return nil
}
func Unsetenv(k string) error { delete(W.Env.Vars, k); return nil }
func Environ() []string {
	var out []string
	for k, v := range W.Env.Vars {
		out = append(out, k+"="+v)
	}
	sort.Strings(out)
	return out
}
func ExpandEnv(s string) string                     { return realos.Expand(s, Getenv) }
func Expand(s string, m func(string) string) string { return realos.Expand(s, m) }

// TempDir returns the simulated temp directory.
func TempDir() string {
	if W.Env.TmpDir == "" {
		return "/tmp"
	}
	return W.Env.TmpDir
}

// UserCacheDir mirrors os.UserCacheDir on Linux.
func UserCacheDir() (string, error) {
	w := W
	ft := w.begin("usercachedir", "env", 0, 0)
	if ft != nil && ft.Kind == "kill" {
		w.die(ft, "usercachedir", "env", 0, 0)
	}
	if w.Env.CacheHome == "" {
		w.logOp("usercachedir", "env", 0, 0, "undefined")
		return "", errors.New("neither $XDG_CACHE_HOME nor $HOME are defined")
	}
	w.logOp("usercachedir", "env", 0, 0, "ok")
	return w.Env.CacheHome, nil
}

func UserHomeDir() (string, error) { return "", errors.New("$HOME is not defined") }
func UserConfigDir() (string, error) {
	return "", errors.New("neither $XDG_CONFIG_HOME nor $HOME are defined")
}

// simple runs the fault protocol shared by metadata operations.
func (w *World) simple(kind, path string) error {
	ft := w.begin(kind, path, 0, 0)
	if ft != nil {
		if ft.Kind == "kill" {
			w.die(ft, kind, path, 0, 0)
		}
		w.fired(ft, kind)
		w.logOp(kind, path, 0, 0, ft.Kind)
		return errnoOf(ft.Kind)
	}
	return nil
}

// Open opens a file read-only.
func Open(name string) (*File, error) { return OpenFile(name, O_RDONLY, 0) }

// Create creates or truncates a file, read-write.
func Create(name string) (*File, error) { return OpenFile(name, O_RDWR|O_CREATE|O_TRUNC, 0666) }

// OpenFile is the general open call.
func OpenFile(name string, flag int, perm FileMode) (*File, error) {
	w := W
	path := clean(name)
	kind := "open"
	if flag&O_CREATE != 0 {
		kind = "create"
	}
	if err := w.simple(kind, path); err != nil {
		return nil, perr("open", name, err)
	}
	if name == "" {
		w.logOp(kind, path, 0, 0, "enoent")
		return nil, perr("open", name, syscall.ENOENT)
	}
	if w.Dirs[path] {
		if flag&O_CREATE != 0 && flag&O_EXCL != 0 {
			w.logOp(kind, path, 0, 0, "eexist")
			return nil, perr("open", name, syscall.EEXIST)
		}
		if flag&(O_WRONLY|O_RDWR) != 0 || flag&O_CREATE != 0 {
			w.logOp(kind, path, 0, 0, "eisdir")
			return nil, perr("open", name, syscall.EISDIR)
		}
		f := &File{w: w, name: name, path: path, kind: kDir}
		w.install(f)
		w.logOp(kind, path, 0, 0, "dir")
		return f, nil
	}
	if src, ok := w.fifoSource(path); ok {
		ino, exists := w.Files[src]
		switch {
		case !exists:
			e := syscall.ENOENT
			if flag&O_CREATE != 0 {
				e = syscall.EACCES
			}
			w.logOp(kind, path, 0, 0, e.Error())
			return nil, perr("open", name, e)
		case flag&O_CREATE != 0 && flag&O_EXCL != 0:
			w.logOp(kind, path, 0, 0, "eexist")
			return nil, perr("open", name, syscall.EEXIST)
		case flag&(O_WRONLY|O_RDWR) != 0:
			// nobody reads the other end
			w.logOp(kind, path, 0, 0, "eacces")
			return nil, perr("open", name, syscall.EACCES)
		}
		pos := w.P.fifoPos[path]
		if pos == nil {
			pos = new(int)
			w.P.fifoPos[path] = pos
		}
		f := &File{w: w, name: name, kind: kPipeIn, pdata: append([]byte(nil), ino.Data...), chunks: w.P.fifoChunks, rpos: *pos, fpos: pos}
		w.install(f)
		w.logOp(kind, path, 0, 0, fmt.Sprintf("fd%d fifo", f.fd))
		return f, nil
	}
	// every directory component must exist and be a directory
	if e := w.checkParents(path); e != 0 {
		w.logOp(kind, path, 0, 0, e.Error())
		return nil, perr("open", name, e)
	}
	ino, ok := w.Files[path]
	if ok && flag&O_CREATE != 0 && flag&O_EXCL != 0 {
		w.logOp(kind, path, 0, 0, "eexist")
		return nil, perr("open", name, syscall.EEXIST)
	}
	if !ok {
		if flag&O_CREATE == 0 {
			w.logOp(kind, path, 0, 0, "enoent")
			return nil, perr("open", name, syscall.ENOENT)
		}
		if w.ReadOnly[parent(path)] {
			w.logOp(kind, path, 0, 0, "eacces")
			return nil, perr("open", name, syscall.EACCES)
		}
		w.nextIno++
		ino = &Inode{ID: w.nextIno, Nlink: 1}
		w.Files[path] = ino
		w.P.touchOf(path, ino, false)
	} else if flag&O_TRUNC != 0 && flag&(O_WRONLY|O_RDWR) != 0 {
		t := w.P.touchOf(path, ino, true)
		t.recs = append(t.recs, wrec{trunc: true})
		ino.Data = ino.Data[:0]
	}
	f := &File{w: w, name: name, path: path, kind: kReg, ino: ino, flag: flag}
	ino.open++
	w.install(f)
	w.logOp(kind, path, 0, 0, fmt.Sprintf("fd%d size=%d", f.fd, len(ino.Data)))
	return f, nil
}

func (w *World) install(f *File) {
	f.fd = w.P.nextFd
	w.P.nextFd++
	w.P.fds[f.fd] = f
}

// missing says why a path that is neither a file nor a directory cannot be
// found: a regular file in the way gives ENOTDIR.
func (w *World) missing(path string) syscall.Errno {
	for cur := parent(path); ; cur = parent(cur) {
		if _, isFile := w.Files[cur]; isFile {
			return syscall.ENOTDIR
		}
		if cur == "/" {
			break
		}
	}
	return syscall.ENOENT
}

func (w *World) checkParents(path string) syscall.Errno {
	d := parent(path)
	for cur := d; ; cur = parent(cur) {
		if _, isFile := w.Files[cur]; isFile {
			return syscall.ENOTDIR
		}
		if cur == "/" {
			break
		}
	}
	if !w.Dirs[d] {
		return syscall.ENOENT
	}
	return 0
}

// Remove unlinks a file or removes an empty directory.
func Remove(name string) error {
	w := W
	path := clean(name)
	if err := w.simple("remove", path); err != nil {
		return perr("remove", name, err)
	}
	if ino, ok := w.Files[path]; ok {
		if w.ReadOnly[parent(path)] {
			w.logOp("remove", path, 0, 0, "eacces")
			return perr("remove", name, syscall.EACCES)
		}
		ino.Nlink--
		delete(w.Files, path)
		w.logOp("remove", path, 0, 0, "ok")
		return nil
	}
	if w.Dirs[path] {
		if len(w.listDir(path)) > 0 {
			w.logOp("remove", path, 0, 0, "enotempty")
			return perr("remove", name, syscall.ENOTEMPTY)
		}
		delete(w.Dirs, path)
		w.logOp("remove", path, 0, 0, "ok")
		return nil
	}
	e := w.missing(path)
	w.logOp("remove", path, 0, 0, e.Error())
	return perr("remove", name, e)
}

// RemoveAll removes path and everything beneath it.
func RemoveAll(name string) error {
	w := W
	path := clean(name)
	if err := w.simple("removeall", path); err != nil {
		return perr("unlinkat", name, err)
	}
	if _, isFile := w.Files[path]; !isFile && !w.Dirs[path] && w.missing(path) == syscall.ENOTDIR {
		w.logOp("removeall", path, 0, 0, "enotdir")
		return perr("unlinkat", name, syscall.ENOTDIR)
	}
	for _, p := range w.List(path) {
		w.Files[p].Nlink--
		delete(w.Files, p)
	}
	for d := range w.Dirs {
		if d != "/" && under(d, path) {
			delete(w.Dirs, d)
		}
	}
	w.logOp("removeall", path, 0, 0, "ok")
	return nil
}

// Mkdir creates one directory.
func Mkdir(name string, perm FileMode) error {
	w := W
	path := clean(name)
	if err := w.simple("mkdir", path); err != nil {
		return perr("mkdir", name, err)
	}
	if _, ok := w.Files[path]; ok || w.Dirs[path] {
		w.logOp("mkdir", path, 0, 0, "eexist")
		return perr("mkdir", name, syscall.EEXIST)
	}
	if e := w.checkParents(path); e != 0 {
		w.logOp("mkdir", path, 0, 0, e.Error())
		return perr("mkdir", name, e)
	}
	if w.ReadOnly[parent(path)] {
		w.logOp("mkdir", path, 0, 0, "eacces")
		return perr("mkdir", name, syscall.EACCES)
	}
	w.Dirs[path] = true
	w.logOp("mkdir", path, 0, 0, "ok")
	return nil
}

// MkdirAll creates a directory and its parents.
func MkdirAll(name string, perm FileMode) error {
	w := W
	path := clean(name)
	if err := w.simple("mkdirall", path); err != nil {
		return perr("mkdir", name, err)
	}
	if w.Dirs[path] {
		w.logOp("mkdirall", path, 0, 0, "exists")
		return nil
	}
	parts := strings.Split(strings.TrimPrefix(path, "/"), "/")
	cur := ""
	for _, s := range parts {
		prev := cur
		if prev == "" {
			prev = "/"
		}
		cur += "/" + s
		if _, isFile := w.Files[cur]; isFile {
			w.logOp("mkdirall", path, 0, 0, "enotdir")
			return perr("mkdir", cur, syscall.ENOTDIR)
		}
		if !w.Dirs[cur] {
			if w.ReadOnly[prev] {
				w.logOp("mkdirall", path, 0, 0, "eacces")
				return perr("mkdir", cur, syscall.EACCES)
			}
			w.Dirs[cur] = true
		}
	}
	w.logOp("mkdirall", path, 0, 0, "ok")
	return nil
}

// Rename moves a file.
func Rename(oldname, newname string) error {
	w := W
	op, np := clean(oldname), clean(newname)
	if err := w.simple("rename", op); err != nil {
		return &realos.LinkError{Op: "rename", Old: oldname, New: newname, Err: err}
	}
	ino, ok := w.Files[op]
	if !ok {
		w.logOp("rename", op, 0, 0, "enoent")
		return &realos.LinkError{Op: "rename", Old: oldname, New: newname, Err: syscall.ENOENT}
	}
	if w.Dirs[np] {
		w.logOp("rename", op, 0, 0, "eexist")
		return &realos.LinkError{Op: "rename", Old: oldname, New: newname, Err: syscall.EEXIST}
	}
	if e := w.checkParents(np); e != 0 {
		w.logOp("rename", op, 0, 0, e.Error())
		return &realos.LinkError{Op: "rename", Old: oldname, New: newname, Err: e}
	}
	if op == np {
		w.logOp("rename", op, 0, 0, "same")
		return nil
	}
	if old, ok := w.Files[np]; ok {
		if old == ino {
			// two names of one file: rename(2) does nothing and succeeds
			w.logOp("rename", op, 0, 0, "same file")
			return nil
		}
		old.Nlink--
	}
	w.Files[np] = ino
	delete(w.Files, op)
	for _, t := range w.P.touched {
		if t.ino == ino {
			t.path = np
		}
	}
	if n := len(w.P.Trace); n > 0 {
		w.P.Trace[n-1].To = np
	}
	w.logOp("rename", op, 0, 0, "-> "+w.logName(np))
	return nil
}

// Link gives the file oldname a second name. It fails when newname exists.
func Link(oldname, newname string) error {
	w := W
	op, np := clean(oldname), clean(newname)
	if err := w.simple("link", op); err != nil {
		return &realos.LinkError{Op: "link", Old: oldname, New: newname, Err: err}
	}
	ino, ok := w.Files[op]
	if !ok {
		w.logOp("link", op, 0, 0, "enoent")
		return &realos.LinkError{Op: "link", Old: oldname, New: newname, Err: syscall.ENOENT}
	}
	if _, exists := w.Files[np]; exists || w.Dirs[np] {
		w.logOp("link", op, 0, 0, "eexist")
		return &realos.LinkError{Op: "link", Old: oldname, New: newname, Err: syscall.EEXIST}
	}
	if e := w.checkParents(np); e != 0 {
		w.logOp("link", op, 0, 0, e.Error())
		return &realos.LinkError{Op: "link", Old: oldname, New: newname, Err: e}
	}
	ino.Nlink++
	w.Files[np] = ino
	// what this process wrote to the file is from now on (also) what it
	// wrote to the new name: the name a program links a finished file to is
	// the one that stays
	for _, t := range w.P.touched {
		if t.ino == ino {
			t.path = np
		}
	}
	if n := len(w.P.Trace); n > 0 {
		w.P.Trace[n-1].To = np
	}
	w.logOp("link", op, 0, 0, "-> "+w.logName(np))
	return nil
}

// Symlink and Readlink: the simulated file system has no symbolic links
// (gts makes none); a program that tries is told so, as on a file system
// without them.
func Symlink(oldname, newname string) error {
	return &realos.LinkError{Op: "symlink", Old: oldname, New: newname, Err: syscall.EPERM}
}

// Readlink: see Symlink.
func Readlink(name string) (string, error) { return "", perr("readlink", name, syscall.EINVAL) }

// Chtimes changes nothing the simulation looks at.
func Chtimes(name string, atime, mtime time.Time) error {
	if _, err := Stat(name); err != nil {
		return perr("chtimes", name, syscall.ENOENT)
	}
	return nil
}

// Stat describes a path.
func Stat(name string) (FileInfo, error) {
	w := W
	path := clean(name)
	if err := w.simple("stat", path); err != nil {
		return nil, perr("stat", name, err)
	}
	if ino, ok := w.Files[path]; ok {
		w.logOp("stat", path, 0, 0, "file")
		return &fileInfo{base(path), int64(len(ino.Data)), 0644}, nil
	}
	if w.Dirs[path] || (w.FifoRoot != "" && path == w.FifoRoot) {
		w.logOp("stat", path, 0, 0, "dir")
		return &fileInfo{base(path), 4096, fs.ModeDir | 0755}, nil
	}
	if src, ok := w.fifoSource(path); ok {
		if _, exists := w.Files[src]; exists {
			w.logOp("stat", path, 0, 0, "fifo")
			return &fileInfo{base(path), 0, fs.ModeNamedPipe | 0600}, nil
		}
	}
	e := w.missing(path)
	w.logOp("stat", path, 0, 0, e.Error())
	return nil, perr("stat", name, e)
}

// Lstat is Stat: there are no symbolic links on the simulated disk.
func Lstat(name string) (FileInfo, error) { return Stat(name) }

// Truncate changes the size of the named file.
func Truncate(name string, size int64) error {
	f, err := OpenFile(name, O_WRONLY, 0)
	if err != nil {
		return err
	}
	defer f.Close()
	return f.Truncate(size)
}

// ReadFile reads a whole file.
func ReadFile(name string) ([]byte, error) {
	f, err := Open(name)
	if err != nil {
		return nil, err
	}
	defer f.Close()
	return io.ReadAll(f)
}

// WriteFile writes a whole file.
func WriteFile(name string, data []byte, perm FileMode) error {
	f, err := OpenFile(name, O_WRONLY|O_CREATE|O_TRUNC, perm)
	if err != nil {
		return err
	}
	_, err = f.Write(data)
	if e := f.Close(); err == nil {
		err = e
	}
	return err
}

// ReadDir lists a directory, sorted by name.
func ReadDir(name string) ([]DirEntry, error) {
	w := W
	path := clean(name)
	if err := w.simple("readdir", path); err != nil {
		return nil, perr("open", name, err)
	}
	if !w.Dirs[path] {
		w.logOp("readdir", path, 0, 0, "enoent")
		if _, ok := w.Files[path]; ok {
			return nil, perr("readdirent", name, syscall.ENOTDIR)
		}
		return nil, perr("open", name, syscall.ENOENT)
	}
	fi := w.listDir(path)
	out := make([]DirEntry, len(fi))
	for i := range fi {
		out[i] = fs.FileInfoToDirEntry(fi[i])
	}
	w.logOp("readdir", path, 0, 0, fmt.Sprint(len(out)))
	return out, nil
}

// ListDirInfo is used by the filepath shim.
func ListDirInfo(path string) ([]FileInfo, error) {
	w := W
	path = clean(path)
	if err := w.simple("readdir", path); err != nil {
		return nil, perr("open", path, err)
	}
	if !w.Dirs[path] {
		w.logOp("readdir", path, 0, 0, "enoent")
		return nil, perr("open", path, syscall.ENOENT)
	}
	fi := w.listDir(path)
	w.logOp("readdir", path, 0, 0, fmt.Sprint(len(fi)))
	return fi, nil
}

// CreateTemp creates a new temporary file; names come from a counter.
func CreateTemp(dir, pattern string) (*File, error) {
	w := W
	if dir == "" {
		dir = TempDir()
	}
	prefix, suffix := pattern, ""
	if i := strings.LastIndex(pattern, "*"); i >= 0 {
		prefix, suffix = pattern[:i], pattern[i+1:]
	}
	for try := 0; try < 10000; try++ {
		w.tmpSeq++
		name := fmt.Sprintf("%s/%s%09d%s", strings.TrimRight(dir, "/"), prefix, w.tmpSeq, suffix)
		f, err := OpenFile(name, O_RDWR|O_CREATE|O_EXCL, 0600)
		if IsExist(err) {
			continue
		}
		return f, err
	}
	return nil, perr("createtemp", dir+"/"+pattern, syscall.EEXIST)
}

// MkdirTemp creates a new temporary directory.
func MkdirTemp(dir, pattern string) (string, error) {
	w := W
	if dir == "" {
		dir = TempDir()
	}
	w.tmpSeq++
	name := fmt.Sprintf("%s/%s%09d", strings.TrimRight(dir, "/"), strings.Replace(pattern, "*", "", -1), w.tmpSeq)
	return name, Mkdir(name, 0700)
}

func Chmod(name string, mode FileMode) error { return nil }
func Chown(name string, uid, gid int) error  { return nil }
func SameFile(a, b FileInfo) bool            { return a.Name() == b.Name() && a.Size() == b.Size() }

// IsTTY reports whether descriptor fd of the current process is a terminal.
func IsTTY(fd uintptr) bool {
	f, ok := W.P.fds[int(fd)]
	return ok && f.kind == kTty
}

// fifoSource maps a path below the directory of named pipes to the file whose
// content the pipe delivers.
func (w *World) fifoSource(path string) (string, bool) {
	if w.FifoRoot == "" || !under(path, w.FifoRoot) || path == w.FifoRoot {
		return "", false
	}
	return w.FifoSrc + path[len(w.FifoRoot):], true
}
