// Package simos is the simulated operating system that the rewritten copy of
// gts's cmd/** packages talks to instead of package os. It owns a simulated
// disk, a process table of one (gts is single threaded and the simulator runs
// one simulated process at a time), the standard streams and every fault that
// can be injected into them. Nothing in here reads a clock, a real file or a
// random source: a run is a pure function of the World it starts from and of
// the ProcSpec it is given.
package simos

import (
	"crypto/sha256"
	"encoding/hex"
	"fmt"
	"hash"
	"sort"
	"strings"
)

// Inode is one regular file's content.
type Inode struct {
	ID    int
	Data  []byte
	Nlink int
	open  int
}

// Env is the part of the environment gts can observe.
type Env struct {
	// CacheHome is what os.UserCacheDir returns; empty means it fails
	// (neither XDG_CACHE_HOME nor HOME defined).
	CacheHome string
	// TmpDir is what os.TempDir returns.
	TmpDir string
	// Vars are extra environment variables for Getenv.
	Vars map[string]string
}

// World is the simulated machine: disk plus environment plus the running
// process.
type World struct {
	// FifoRoot, if set, is a directory of named pipes: FifoRoot/x delivers
	// the content that FifoSrc/x has when the pipe is opened, once per
	// process, in short reads - what `gts cmd <(cat x)` or a mkfifo'd path
	// gives. Nothing can be created there and a pipe cannot seek.
	FifoRoot string
	FifoSrc  string
	// Quota gives directories that sit on a small file system: the files
	// below such a directory can hold that many bytes together, a write
	// that needs more is cut short with ENOSPC. Creating files still works.
	Quota map[string]int
	// Sched, if set, is called at the start of every operation with the
	// process that issues it: a cooperative scheduler parks the calling
	// goroutine there until it is that process's turn again.
	Sched func(p *Proc)
	// OnCall is what a fault of kind "call" invokes.
	OnCall   func(arg string)
	Files    map[string]*Inode
	Dirs     map[string]bool
	ReadOnly map[string]bool // directories in which nothing can be created
	Env      Env
	nextIno  int
	tmpSeq   int
	procSeq  int
	P        *Proc
	Log      *EventLog
	// Stats are cumulative over the life of the world.
	Stats Stats
}

// Stats counts what actually happened.
type Stats struct {
	Ops         int
	FaultsFired map[string]int
}

// EventLog is the run's identity: a hash over one line per simulated I/O
// operation, optionally with the lines kept for display.
type EventLog struct {
	h     hash.Hash
	Keep  bool
	Lines []string
	N     int
}

// NewEventLog returns an empty log.
func NewEventLog(keep bool) *EventLog { return &EventLog{h: sha256.New(), Keep: keep} }

// Add appends a line.
func (l *EventLog) Add(s string) {
	l.N++
	l.h.Write([]byte(s))
	l.h.Write([]byte{'\n'})
	if l.Keep {
		l.Lines = append(l.Lines, s)
	}
}

// Addf appends a formatted line.
func (l *EventLog) Addf(format string, a ...interface{}) { l.Add(fmt.Sprintf(format, a...)) }

// Digest returns the hex SHA-256 of the log so far.
func (l *EventLog) Digest() string { return hex.EncodeToString(l.h.Sum(nil)) }

// W is the world the shims operate on. Exactly one simulated run is live in
// an OS process at a time (gts has process-global state anyway).
var W *World

// NewWorld returns a machine with an empty disk holding /, the home
// directory, the temp directory and /u (where scenarios put user files).
func NewWorld(env Env, keepLog bool) *World {
	w := &World{
		Files:    map[string]*Inode{},
		Dirs:     map[string]bool{"/": true},
		ReadOnly: map[string]bool{},
		Env:      env,
		Log:      NewEventLog(keepLog),
	}
	w.Stats.FaultsFired = map[string]int{}
	w.mkdirAllRaw("/u")
	return w
}

func (w *World) mkdirAllRaw(p string) {
	p = clean(p)
	if p == "/" {
		return
	}
	parts := strings.Split(strings.TrimPrefix(p, "/"), "/")
	cur := ""
	for _, s := range parts {
		cur += "/" + s
		w.Dirs[cur] = true
	}
}

// MkdirAllRaw creates directories without going through a process (scenario
// set-up).
func (w *World) MkdirAllRaw(p string) { w.mkdirAllRaw(p) }

// RemoveDirRaw removes an (empty) directory without going through a process.
func (w *World) RemoveDirRaw(p string) { delete(w.Dirs, clean(p)) }

// PutFile stores a file without going through a process (scenario set-up,
// between-run disk faults).
func (w *World) PutFile(path string, data []byte) {
	path = clean(path)
	w.mkdirAllRaw(parent(path))
	if ino, ok := w.Files[path]; ok {
		ino.Data = append([]byte(nil), data...)
		return
	}
	w.nextIno++
	w.Files[path] = &Inode{ID: w.nextIno, Data: append([]byte(nil), data...), Nlink: 1}
}

// GetFile returns a copy of the file's bytes.
func (w *World) GetFile(path string) ([]byte, bool) {
	ino, ok := w.Files[clean(path)]
	if !ok {
		return nil, false
	}
	return append([]byte(nil), ino.Data...), true
}

// DeleteFile removes a file outside any process.
func (w *World) DeleteFile(path string) {
	path = clean(path)
	if ino, ok := w.Files[path]; ok {
		ino.Nlink--
		delete(w.Files, path)
	}
}

// List returns the sorted paths of all files under prefix.
func (w *World) List(prefix string) []string {
	prefix = clean(prefix)
	var out []string
	for p := range w.Files {
		if under(p, prefix) {
			out = append(out, p)
		}
	}
	sort.Strings(out)
	return out
}

// CacheDir is where gts keeps its entries in this world ("" if there is no
// usable cache home).
func (w *World) CacheDir() string {
	if w.Env.CacheHome == "" {
		return ""
	}
	return clean(w.Env.CacheHome + "/gts-cache")
}

// Class classifies a path for fault targeting and the event log.
func (w *World) Class(path string) string {
	path = clean(path)
	if w.Env.CacheHome != "" && under(path, clean(w.Env.CacheHome)) {
		return "cache"
	}
	if w.Env.TmpDir != "" && under(path, clean(w.Env.TmpDir)) {
		return "tmp"
	}
	return "user"
}

// logName abbreviates a path for the event log.
func (w *World) logName(path string) string {
	c := w.Class(path)
	b := path[strings.LastIndex(path, "/")+1:]
	if c == "cache" && len(b) > 8 {
		b = b[:8]
	}
	return c + ":" + b
}

func under(p, dir string) bool {
	if dir == "/" {
		return true
	}
	return p == dir || strings.HasPrefix(p, dir+"/")
}

func parent(p string) string {
	i := strings.LastIndex(p, "/")
	if i <= 0 {
		return "/"
	}
	return p[:i]
}

// clean makes a path absolute (relative paths live under /u, the simulated
// working directory) and lexically clean.
func clean(p string) string {
	if p == "" {
		return "/u"
	}
	if !strings.HasPrefix(p, "/") {
		p = "/u/" + p
	}
	parts := strings.Split(p, "/")
	var out []string
	for _, s := range parts {
		switch s {
		case "", ".":
		case "..":
			if len(out) > 0 {
				out = out[:len(out)-1]
			}
		default:
			out = append(out, s)
		}
	}
	return "/" + strings.Join(out, "/")
}

// Clean exposes path normalisation to the other shim packages.
func Clean(p string) string { return clean(p) }

// Snapshot returns path -> bytes for every file under prefix.
func (w *World) Snapshot(prefix string) map[string][]byte {
	m := map[string][]byte{}
	for _, p := range w.List(prefix) {
		m[p] = append([]byte(nil), w.Files[p].Data...)
	}
	return m
}

// room returns how many bytes the file at path may still grow by, or -1 if
// no quota applies.
func (w *World) room(path string) int {
	for dir, capacity := range w.Quota {
		if !under(path, dir) {
			continue
		}
		used := 0
		for p, ino := range w.Files {
			if under(p, dir) {
				used += len(ino.Data)
			}
		}
		if used >= capacity {
			return 0
		}
		return capacity - used
	}
	return -1
}
