package simos

import (
	"fmt"
	"io"
	"io/fs"
	realos "os"
	"os/signal"
	"sort"
	"syscall"
	"time"
)

const (
	kReg = iota
	kPipeIn
	kSink
	kTty
	kDir
)

// File stands in for os.File.
type File struct {
	w      *World
	name   string // as given to Open/Create
	path   string // cleaned absolute path (regular files, directories)
	kind   int
	ino    *Inode
	off    int64
	flag   int
	fd     int
	closed bool
	// pipe input
	pdata  []byte
	chunks []int
	ci     int
	rpos   int
	fpos   *int // named pipe: delivery position shared by every open in this process
	failAt int  // pipe: fail with EIO once this many bytes were delivered (0: never)
	// sink
	sink    []byte
	limit   int
	sinkErr string
	// directory listing position
	dirpos int
	// of: the open file this value stands for when it was made by NewFile
	// from a descriptor number: a second Go value for the same descriptor
	// (same offset, same everything), as os.NewFile gives.
	of *File
}

// Name returns the name as presented to Open.
func (f *File) Name() string { return f.name }

// Fd returns the simulated descriptor number.
func (f *File) Fd() uintptr { return uintptr(f.fd) }

// SinkBytes returns what a sink has accepted so far.
func (f *File) SinkBytes() []byte {
	if f.of != nil {
		return f.of.sink
	}
	return f.sink
}

// NewFile returns a new File for an open descriptor of the current process,
// nil when there is none with that number.
func NewFile(fd uintptr, name string) *File {
	p := W.P
	if p == nil {
		return nil
	}
	t, ok := p.fds[int(fd)]
	if !ok || t.closed {
		return nil
	}
	for t.of != nil {
		t = t.of
	}
	return &File{w: t.w, name: name, kind: t.kind, fd: t.fd, of: t}
}

func perr(op, path string, err error) error { return &fs.PathError{Op: op, Path: path, Err: err} }

func errnoOf(kind string) syscall.Errno {
	switch kind {
	case "eio":
		return syscall.EIO
	case "enospc":
		return syscall.ENOSPC
	case "eacces":
		return syscall.EACCES
	case "enoent":
		return syscall.ENOENT
	}
	return syscall.EIO
}

func (f *File) opPath() string {
	if f.path != "" {
		return f.path
	}
	return f.name
}

// Read implements io.Reader with os.File semantics for regular files and
// scheduled short reads for the stdin pipe.
func (f *File) Read(p []byte) (int, error) {
	if f.of != nil {
		return f.of.Read(p)
	}
	w := f.w
	ft := w.begin("read", f.opPath(), f.off, len(p))
	if ft != nil {
		if ft.Kind == "kill" {
			w.die(ft, "read", f.opPath(), f.off, len(p))
		}
		w.fired(ft, "read")
		w.logOp("read", f.opPath(), f.off, len(p), ft.Kind)
		return 0, perr("read", f.name, errnoOf(ft.Kind))
	}
	if f.closed {
		w.logOp("read", f.opPath(), f.off, len(p), "closed")
		return 0, perr("read", f.name, realos.ErrClosed)
	}
	if len(p) == 0 {
		// os.File.Read returns before any system call
		w.logOp("read", f.opPath(), f.off, 0, "0")
		return 0, nil
	}
	switch f.kind {
	case kReg:
		if f.flag&(realos.O_WRONLY) != 0 {
			w.logOp("read", f.opPath(), f.off, len(p), "ebadf")
			return 0, perr("read", f.name, syscall.EBADF)
		}
		if f.off >= int64(len(f.ino.Data)) {
			w.logOp("read", f.opPath(), f.off, len(p), "EOF")
			return 0, io.EOF
		}
		n := copy(p, f.ino.Data[f.off:])
		w.logOp("read", f.opPath(), f.off, len(p), fmt.Sprint(n))
		f.off += int64(n)
		return n, nil
	case kPipeIn:
		if len(p) == 0 {
			w.logOp("read", f.name, int64(f.rpos), 0, "0")
			return 0, nil
		}
		if f.fpos != nil && *f.fpos > f.rpos {
			f.rpos = *f.fpos // another descriptor on the same pipe has taken these bytes
		}
		if f.failAt > 0 && f.rpos >= f.failAt {
			w.Stats.FaultsFired["stdin-read-error"]++
			w.logOp("read", f.name, int64(f.rpos), len(p), "eio")
			return 0, perr("read", f.name, syscall.EIO)
		}
		if f.rpos >= len(f.pdata) {
			w.logOp("read", f.name, int64(f.rpos), len(p), "EOF")
			return 0, io.EOF
		}
		n := len(p)
		if len(f.chunks) > 0 {
			c := f.chunks[f.ci%len(f.chunks)]
			f.ci++
			if c < 1 {
				c = 1
			}
			if c < n {
				n = c
			}
		}
		if f.failAt > 0 && f.rpos+n > f.failAt {
			n = f.failAt - f.rpos
		}
		n = copy(p[:n], f.pdata[f.rpos:])
		w.logOp("read", f.name, int64(f.rpos), len(p), fmt.Sprint(n))
		f.rpos += n
		if f.fpos != nil {
			*f.fpos = f.rpos
		}
		return n, nil
	case kTty:
		// Nobody types: end of input.
		w.logOp("read", f.name, 0, len(p), "EOF")
		return 0, io.EOF
	case kDir:
		w.logOp("read", f.opPath(), 0, len(p), "eisdir")
		return 0, perr("read", f.name, syscall.EISDIR)
	}
	w.logOp("read", f.name, 0, len(p), "ebadf")
	return 0, perr("read", f.name, syscall.EBADF)
}

// Write implements io.Writer.
func (f *File) Write(p []byte) (int, error) {
	if f.of != nil {
		return f.of.Write(p)
	}
	w := f.w
	ft := w.begin("write", f.opPath(), f.off, len(p))
	if ft != nil {
		switch ft.Kind {
		case "kill":
			t := ft.Torn
			if t > len(p) {
				t = len(p)
			}
			if t > 0 && !f.closed {
				f.apply(p[:t])
			}
			w.die(ft, "write", f.opPath(), f.off, len(p))
		case "enospc":
			t := ft.Torn
			if t >= len(p) {
				t = len(p) - 1
			}
			if t < 0 {
				t = 0
			}
			w.fired(ft, "write")
			if t > 0 && !f.closed {
				t = f.apply(p[:t])
			}
			w.logOp("write", f.opPath(), f.off, len(p), fmt.Sprintf("enospc after %d", t))
			return t, perr("write", f.name, syscall.ENOSPC)
		default:
			w.fired(ft, "write")
			w.logOp("write", f.opPath(), f.off, len(p), ft.Kind)
			return 0, perr("write", f.name, errnoOf(ft.Kind))
		}
	}
	if f.closed {
		w.logOp("write", f.opPath(), f.off, len(p), "closed")
		return 0, perr("write", f.name, realos.ErrClosed)
	}
	switch f.kind {
	case kReg:
		if f.flag&(realos.O_WRONLY|realos.O_RDWR) == 0 {
			w.logOp("write", f.opPath(), f.off, len(p), "ebadf")
			return 0, perr("write", f.name, syscall.EBADF)
		}
		off := f.off
		if room := w.room(f.path); room >= 0 && w.Files[f.path] == f.ino {
			end := off
			if f.flag&realos.O_APPEND != 0 {
				end = int64(len(f.ino.Data))
			}
			if grow := int(end) + len(p) - len(f.ino.Data); grow > room {
				// the file system is full: what still fits is written
				keep := len(p) - (grow - room)
				if keep < 0 {
					keep = 0
				}
				n := 0
				if keep > 0 {
					n = f.apply(p[:keep])
				}
				w.Stats.FaultsFired["enospc(full file system)@write"]++
				w.logOp("write", f.opPath(), off, len(p), fmt.Sprintf("enospc after %d", n))
				return n, perr("write", f.name, syscall.ENOSPC)
			}
		}
		n := f.apply(p)
		w.logOp("write", f.opPath(), off, len(p), fmt.Sprint(n))
		return n, nil
	case kSink:
		off := int64(len(f.sink))
		n := f.apply(p)
		if n < len(p) {
			w.Stats.FaultsFired["sink_limit"]++
			w.P.Fired = append(w.P.Fired, "sink_limit")
			errno := syscall.ENOSPC
			switch f.sinkErr {
			case "once":
				// a passing failure (a pipe another process has switched to
				// non-blocking mode): this write fails, later ones go through
				errno = syscall.EAGAIN
				f.limit = -1
			case "eio":
				errno = syscall.EIO
			case "epipe":
				errno = syscall.EPIPE
				if !signal.Ignored(syscall.SIGPIPE) {
					// nobody reads the pipe any more: SIGPIPE ends the process
					w.Stats.FaultsFired["sigpipe"]++
					w.logOp("write", f.name, off, len(p), fmt.Sprintf("SIGPIPE after %d", n))
					w.P.Crashed = true
					w.P.Signalled = "SIGPIPE"
					panic(CrashSentinel{"sigpipe"})
				}
			}
			w.logOp("write", f.name, off, len(p), fmt.Sprintf("%s after %d", errno.Error(), n))
			return n, perr("write", f.name, errno)
		}
		w.logOp("write", f.name, off, len(p), fmt.Sprint(n))
		return n, nil
	}
	w.logOp("write", f.name, 0, len(p), "ebadf")
	return 0, perr("write", f.name, syscall.EBADF)
}

// apply performs the data movement of a write and returns how much was taken.
func (f *File) apply(p []byte) int {
	switch f.kind {
	case kReg:
		if f.flag&(realos.O_WRONLY|realos.O_RDWR) == 0 {
			return 0
		}
		if len(p) == 0 {
			return 0 // a zero-length write never extends the file
		}
		if f.flag&realos.O_APPEND != 0 {
			f.off = int64(len(f.ino.Data))
		}
		t := f.w.P.touchOf(f.path, f.ino, true)
		t.recs = append(t.recs, wrec{false, f.off, append([]byte(nil), p...)})
		end := f.off + int64(len(p))
		for int64(len(f.ino.Data)) < end {
			f.ino.Data = append(f.ino.Data, 0)
		}
		copy(f.ino.Data[f.off:], p)
		f.off = end
		return len(p)
	case kSink:
		n := len(p)
		if f.limit >= 0 && len(f.sink)+n > f.limit {
			n = f.limit - len(f.sink)
			if n < 0 {
				n = 0
			}
		}
		f.sink = append(f.sink, p[:n]...)
		return n
	}
	return 0
}

// WriteString is like Write.
func (f *File) WriteString(s string) (int, error) { return f.Write([]byte(s)) }

// Seek implements io.Seeker.
func (f *File) Seek(offset int64, whence int) (int64, error) {
	if f.of != nil {
		return f.of.Seek(offset, whence)
	}
	w := f.w
	ft := w.begin("seek", f.opPath(), offset, whence)
	if ft != nil {
		if ft.Kind == "kill" {
			w.die(ft, "seek", f.opPath(), offset, whence)
		}
		w.fired(ft, "seek")
		w.logOp("seek", f.opPath(), offset, whence, ft.Kind)
		return 0, perr("seek", f.name, errnoOf(ft.Kind))
	}
	if f.closed {
		w.logOp("seek", f.opPath(), offset, whence, "closed")
		return 0, perr("seek", f.name, realos.ErrClosed)
	}
	if f.kind != kReg {
		w.logOp("seek", f.opPath(), offset, whence, "espipe")
		return 0, perr("seek", f.name, syscall.ESPIPE)
	}
	var n int64
	switch whence {
	case io.SeekStart:
		n = offset
	case io.SeekCurrent:
		n = f.off + offset
	case io.SeekEnd:
		n = int64(len(f.ino.Data)) + offset
	default:
		w.logOp("seek", f.opPath(), offset, whence, "einval")
		return 0, perr("seek", f.name, syscall.EINVAL)
	}
	if n < 0 {
		w.logOp("seek", f.opPath(), offset, whence, "einval")
		return 0, perr("seek", f.name, syscall.EINVAL)
	}
	f.off = n
	w.logOp("seek", f.opPath(), offset, whence, fmt.Sprint(n))
	return n, nil
}

// Close releases the handle.
func (f *File) Close() error {
	if f.of != nil {
		return f.of.Close()
	}
	w := f.w
	ft := w.begin("close", f.opPath(), 0, 0)
	if ft != nil && ft.Kind == "kill" {
		w.die(ft, "close", f.opPath(), 0, 0)
	}
	if f.closed {
		w.logOp("close", f.opPath(), 0, 0, "closed")
		return perr("close", f.name, realos.ErrClosed)
	}
	f.closed = true
	if f.ino != nil {
		f.ino.open--
	}
	if ft != nil {
		// The descriptor is gone either way; the error is reported.
		w.fired(ft, "close")
		w.logOp("close", f.opPath(), 0, 0, ft.Kind)
		return perr("close", f.name, errnoOf(ft.Kind))
	}
	w.logOp("close", f.opPath(), 0, 0, "ok")
	return nil
}

// Sync is recorded; a synced file's writes so far are immune to power loss.
func (f *File) Sync() error {
	if f.of != nil {
		return f.of.Sync()
	}
	w := f.w
	ft := w.begin("sync", f.opPath(), 0, 0)
	if ft != nil {
		if ft.Kind == "kill" {
			w.die(ft, "sync", f.opPath(), 0, 0)
		}
		w.fired(ft, "sync")
		w.logOp("sync", f.opPath(), 0, 0, ft.Kind)
		return perr("sync", f.name, errnoOf(ft.Kind))
	}
	if f.closed {
		return perr("sync", f.name, realos.ErrClosed)
	}
	if f.kind == kReg {
		for _, t := range w.P.touched {
			if t.ino == f.ino {
				t.base = append([]byte(nil), f.ino.Data...)
				t.baseExists = true
				t.recs = nil
			}
		}
	}
	w.logOp("sync", f.opPath(), 0, 0, "ok")
	return nil
}

// Truncate changes the size of the file.
func (f *File) Truncate(size int64) error {
	if f.of != nil {
		return f.of.Truncate(size)
	}
	w := f.w
	ft := w.begin("truncate", f.opPath(), size, 0)
	if ft != nil {
		if ft.Kind == "kill" {
			w.die(ft, "truncate", f.opPath(), size, 0)
		}
		w.fired(ft, "truncate")
		return perr("truncate", f.name, errnoOf(ft.Kind))
	}
	if f.closed {
		return perr("truncate", f.name, realos.ErrClosed)
	}
	if f.kind != kReg || size < 0 {
		return perr("truncate", f.name, syscall.EINVAL)
	}
	t := w.P.touchOf(f.path, f.ino, true)
	if size == 0 {
		t.recs = append(t.recs, wrec{trunc: true})
		f.ino.Data = f.ino.Data[:0]
	} else if size < int64(len(f.ino.Data)) {
		// modelled as rewrite of the kept prefix after truncation to zero
		keep := append([]byte(nil), f.ino.Data[:size]...)
		t.recs = append(t.recs, wrec{trunc: true}, wrec{false, 0, keep})
		f.ino.Data = keep
	} else {
		pad := make([]byte, size-int64(len(f.ino.Data)))
		t.recs = append(t.recs, wrec{false, int64(len(f.ino.Data)), pad})
		f.ino.Data = append(f.ino.Data, pad...)
	}
	w.logOp("truncate", f.opPath(), size, 0, "ok")
	return nil
}

// ReadAt reads at an absolute offset without moving the file offset.
func (f *File) ReadAt(p []byte, off int64) (int, error) {
	if f.of != nil {
		return f.of.ReadAt(p, off)
	}
	save := f.off
	f.off = off
	n, err := f.Read(p)
	f.off = save
	if err == nil && n < len(p) {
		err = io.EOF
	}
	return n, err
}

// WriteAt writes at an absolute offset without moving the file offset.
func (f *File) WriteAt(p []byte, off int64) (int, error) {
	if f.of != nil {
		return f.of.WriteAt(p, off)
	}
	save := f.off
	f.off = off
	n, err := f.Write(p)
	f.off = save
	return n, err
}

// Chmod is accepted and ignored.
func (f *File) Chmod(mode FileMode) error { return nil }

// Stat describes the file.
func (f *File) Stat() (FileInfo, error) {
	if f.of != nil {
		return f.of.Stat()
	}
	if f.closed {
		return nil, perr("stat", f.name, realos.ErrClosed)
	}
	switch f.kind {
	case kReg:
		return &fileInfo{base(f.opPath()), int64(len(f.ino.Data)), 0644}, nil
	case kDir:
		return &fileInfo{base(f.opPath()), 4096, fs.ModeDir | 0755}, nil
	case kTty:
		return &fileInfo{base(f.name), 0, fs.ModeDevice | fs.ModeCharDevice | 0620}, nil
	}
	return &fileInfo{base(f.name), 0, fs.ModeNamedPipe | 0600}, nil
}

// Readdir lists a directory handle.
func (f *File) Readdir(n int) ([]FileInfo, error) {
	if f.of != nil {
		return f.of.Readdir(n)
	}
	if f.kind != kDir {
		return nil, perr("readdir", f.name, syscall.ENOTDIR)
	}
	all := f.w.listDir(f.path)
	rest := all[min(f.dirpos, len(all)):]
	if n > 0 && len(rest) > n {
		rest = rest[:n]
	}
	f.dirpos += len(rest)
	if n > 0 && len(rest) == 0 {
		return nil, io.EOF
	}
	return rest, nil
}

// Readdirnames lists the names in a directory handle.
func (f *File) Readdirnames(n int) ([]string, error) {
	if f.of != nil {
		return f.of.Readdirnames(n)
	}
	fi, err := f.Readdir(n)
	names := make([]string, len(fi))
	for i := range fi {
		names[i] = fi[i].Name()
	}
	return names, err
}

func min(a, b int) int {
	if a < b {
		return a
	}
	return b
}

func base(p string) string {
	for i := len(p) - 1; i >= 0; i-- {
		if p[i] == '/' {
			return p[i+1:]
		}
	}
	return p
}

type fileInfo struct {
	name string
	size int64
	mode fs.FileMode
}

func (i *fileInfo) Name() string       { return i.name }
func (i *fileInfo) Size() int64        { return i.size }
func (i *fileInfo) Mode() fs.FileMode  { return i.mode }
func (i *fileInfo) ModTime() time.Time { return time.Time{} }
func (i *fileInfo) IsDir() bool        { return i.mode.IsDir() }
func (i *fileInfo) Sys() interface{}   { return nil }

// listDir returns the sorted entries directly inside dir.
func (w *World) listDir(dir string) []FileInfo {
	seen := map[string]FileInfo{}
	for p, ino := range w.Files {
		if parent(p) == dir {
			seen[base(p)] = &fileInfo{base(p), int64(len(ino.Data)), 0644}
		}
	}
	for p := range w.Dirs {
		if p != "/" && parent(p) == dir {
			seen[base(p)] = &fileInfo{base(p), 4096, fs.ModeDir | 0755}
		}
	}
	names := make([]string, 0, len(seen))
	for n := range seen {
		names = append(names, n)
	}
	sort.Strings(names)
	out := make([]FileInfo, len(names))
	for i, n := range names {
		out[i] = seen[n]
	}
	return out
}
