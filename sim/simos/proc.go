package simos

import (
	"fmt"
	"sort"
)

// Fault is one injected fault, attached to the AtOp-th simulated I/O
// operation of a process (operations are counted from 0 in issue order).
type Fault struct {
	AtOp int    `json:"at_op"`
	Kind string `json:"kind"` // kill | eio | enospc | eacces | enoent
	// Torn is the number of bytes of a write that reach the file before the
	// fault takes effect (kill, enospc). Ignored for other operations.
	Torn int `json:"torn,omitempty"`
	// Arg, for kind "call": what to hand to World.OnCall just before the
	// operation is carried out - something else on the machine acts at that
	// moment (another program rewrites the input file); the operation itself
	// then proceeds unharmed.
	Arg string `json:"arg,omitempty"`
}

// PowerLoss describes what a power cut at process death does to writes that
// were never synced: the listed pieces (indices into the process's flattened
// list of sector-sized write pieces, taken modulo its length) are lost.
type PowerLoss struct {
	Drop    []int `json:"drop"`
	LenFull bool  `json:"len_full"` // file length metadata survived although data did not
}

// StdinSpec describes standard input.
type StdinSpec struct {
	Tty    bool
	Data   []byte
	Chunks []int // sizes of successive reads, cycled; empty = as much as asked
	// FailAt, if > 0, makes the pipe fail with EIO once that many bytes have
	// been delivered (a producer that died, a failing medium behind it).
	FailAt int
	// File, if set, makes stdin a read-only descriptor on that regular file
	// (gts < file), positioned at Offset (the caller may have read a part).
	File   string
	Offset int64
}

// ProcSpec is everything that distinguishes one simulated process.
type ProcSpec struct {
	Stdin StdinSpec
	// FifoChunks is the read schedule of named pipes opened by path.
	FifoChunks []int
	SinkLimit  int // bytes stdout accepts before failing; <0 = unlimited
	// SinkErr says how stdout fails once it is full: "" or "enospc" (a full
	// disk behind a redirection), "eio", or "epipe" - the reader of a pipe
	// went away; unless the program ignores SIGPIPE the write kills it, as
	// the signal does a real process.
	SinkErr   string
	Faults    []Fault
	PowerLoss *PowerLoss
}

// OpRec is one executed operation, kept so that generators can aim faults.
type OpRec struct {
	Kind  string
	Class string
	Name  string
	Path  string
	Off   int64
	Len   int
	Res   string
	To    string // rename: the new path
}

// CrashSentinel is the panic value with which a killed process unwinds.
type CrashSentinel struct{ Kind string }

// ExitSentinel is the panic value of a simulated os.Exit.
type ExitSentinel struct{ Code int }

type touch struct {
	path       string
	ino        *Inode
	baseExists bool
	base       []byte
	recs       []wrec
}

type wrec struct {
	trunc bool
	off   int64
	data  []byte
}

// Proc is the running simulated process.
type Proc struct {
	ID      int
	Ops     int
	Faults  []Fault
	Crashed bool
	// Signalled names the signal that ended the process, if one did.
	Signalled string
	Stdin     *File
	Stdout    *File
	Stderr    *File
	fds       map[int]*File
	nextFd    int
	touched   []*touch
	Trace     []OpRec
	Fired     []string
	pl        *PowerLoss
	// named pipes: how much of each has been delivered to this process, and
	// the read schedule
	fifoPos    map[string]*int
	fifoChunks []int
}

// StartProc makes a fresh process current: new fd table, new standard
// streams. The caller resets gts's process-global state.
func (w *World) StartProc(spec ProcSpec) *Proc {
	w.procSeq++
	p := &Proc{ID: w.procSeq, Faults: spec.Faults, fds: map[int]*File{}, nextFd: 3, pl: spec.PowerLoss, fifoPos: map[string]*int{}, fifoChunks: spec.FifoChunks}
	if ino, ok := w.Files[clean(spec.Stdin.File)]; spec.Stdin.File != "" && ok {
		p.Stdin = &File{w: w, name: "/dev/stdin", path: clean(spec.Stdin.File), kind: kReg, ino: ino, off: spec.Stdin.Offset, flag: 0, fd: 0}
		ino.open++
	} else if spec.Stdin.Tty {
		p.Stdin = &File{w: w, name: "/dev/stdin", kind: kTty, fd: 0}
	} else {
		p.Stdin = &File{w: w, name: "/dev/stdin", kind: kPipeIn, fd: 0, pdata: spec.Stdin.Data, chunks: spec.Stdin.Chunks, failAt: spec.Stdin.FailAt}
	}
	p.Stdout = &File{w: w, name: "/dev/stdout", kind: kSink, fd: 1, limit: spec.SinkLimit, sinkErr: spec.SinkErr}
	p.Stderr = &File{w: w, name: "/dev/stderr", kind: kSink, fd: 2, limit: -1}
	p.fds[0], p.fds[1], p.fds[2] = p.Stdin, p.Stdout, p.Stderr
	w.P = p
	Stdin, Stdout, Stderr = p.Stdin, p.Stdout, p.Stderr
	w.Log.Addf("p%d start tty=%v stdin=%d sink=%d faults=%d", p.ID, spec.Stdin.Tty, len(spec.Stdin.Data), spec.SinkLimit, len(spec.Faults))
	return p
}

// EndProc closes what the process left open and applies a power loss if one
// was specified. It returns the bytes written to stdout and stderr.
func (w *World) EndProc(status int) (stdout, stderr []byte) {
	p := w.P
	ids := make([]int, 0, len(p.fds))
	for fd := range p.fds {
		ids = append(ids, fd)
	}
	sort.Ints(ids)
	for _, fd := range ids {
		f := p.fds[fd]
		if !f.closed {
			f.closed = true
			if f.ino != nil {
				f.ino.open--
			}
		}
	}
	if p.pl != nil {
		w.applyPowerLoss(p)
	}
	w.Log.Addf("p%d end status=%d ops=%d out=%d", p.ID, status, p.Ops, len(p.Stdout.sink))
	return p.Stdout.sink, p.Stderr.sink
}

// begin is called at the start of every simulated operation. It returns the
// fault attached to this operation, if any.
func (w *World) begin(kind, path string, off int64, n int) *Fault {
	p := w.P
	if p == nil {
		panic("simos: operation outside a simulated process: " + kind + " " + path)
	}
	if p.Crashed {
		panic(CrashSentinel{"dead"})
	}
	if w.Sched != nil {
		w.Sched(p)
	}
	idx := p.Ops
	p.Ops++
	w.Stats.Ops++
	cls := "stream"
	name := path
	if len(path) > 0 && path[0] == '/' && !isDev(path) {
		cls = w.Class(path)
		name = w.logName(path)
	}
	p.Trace = append(p.Trace, OpRec{Kind: kind, Class: cls, Name: name, Path: path, Off: off, Len: n})
	for i := range p.Faults {
		if p.Faults[i].AtOp == idx {
			if p.Faults[i].Kind == "call" || p.Faults[i].Kind == "overlap" {
				// "overlap": what acts meanwhile is another simulated process
				name := map[string]string{"call": "outside-event@", "overlap": "overlap@"}[p.Faults[i].Kind] + kind
				w.Stats.FaultsFired[name]++
				p.Fired = append(p.Fired, name)
				if w.OnCall != nil {
					w.OnCall(p.Faults[i].Arg)
				}
				continue
			}
			return &p.Faults[i]
		}
	}
	return nil
}

func isDev(p string) bool { return len(p) > 5 && p[:5] == "/dev/" }

func (w *World) fired(f *Fault, kind string) {
	key := f.Kind + "@" + kind
	w.Stats.FaultsFired[key]++
	w.P.Fired = append(w.P.Fired, key)
}

// logOp records the outcome of an operation.
func (w *World) logOp(kind, path string, off int64, n int, res string) {
	p := w.P
	name := path
	if len(path) > 0 && path[0] == '/' && !isDev(path) {
		name = w.logName(path)
	}
	if len(p.Trace) > 0 {
		p.Trace[len(p.Trace)-1].Res = res
	}
	w.Log.Addf("p%d #%d %s %s off=%d len=%d -> %s", p.ID, p.Ops-1, kind, name, off, n, res)
}

// die marks the process dead and unwinds it.
func (w *World) die(f *Fault, kind, path string, off int64, n int) {
	w.P.Crashed = true
	w.fired(f, kind)
	w.logOp(kind, path, off, n, fmt.Sprintf("KILLED torn=%d", f.Torn))
	panic(CrashSentinel{"kill"})
}

// touchOf returns the power-loss record for an inode, creating it (with a
// copy of the pre-image) on first modification by this process.
func (p *Proc) touchOf(path string, ino *Inode, existed bool) *touch {
	for _, t := range p.touched {
		if t.ino == ino {
			return t
		}
	}
	t := &touch{path: path, ino: ino, baseExists: existed}
	if existed {
		t.base = append([]byte(nil), ino.Data...)
	}
	p.touched = append(p.touched, t)
	return t
}

// WriteLog returns, for tests and for the C13 crash sweep, the writes the
// current process issued to path in order (truncations as Off=-1).
type WriteRec struct {
	Off  int64
	Data []byte
}

// WriteLog returns the ordered writes of the current process to path.
func (w *World) WriteLog(path string) []WriteRec {
	path = clean(path)
	var out []WriteRec
	for _, t := range w.P.touched {
		if t.path == path {
			for _, r := range t.recs {
				if r.trunc {
					out = append(out, WriteRec{-1, nil})
				} else {
					out = append(out, WriteRec{r.off, r.data})
				}
			}
		}
	}
	return out
}

const sector = 512

type piece struct {
	t     *touch
	trunc bool
	off   int64
	data  []byte
}

func (w *World) applyPowerLoss(p *Proc) {
	var pieces []piece
	for _, t := range p.touched {
		for _, r := range t.recs {
			if r.trunc {
				pieces = append(pieces, piece{t, true, 0, nil})
				continue
			}
			off, d := r.off, r.data
			for len(d) > 0 {
				n := sector - int(off%sector)
				if n > len(d) {
					n = len(d)
				}
				pieces = append(pieces, piece{t, false, off, d[:n]})
				off += int64(n)
				d = d[n:]
			}
		}
	}
	if len(pieces) == 0 {
		return
	}
	drop := map[int]bool{}
	for _, i := range p.pl.Drop {
		if i < 0 {
			i = -i
		}
		drop[i%len(pieces)] = true
	}
	img := map[*touch][]byte{}
	for _, t := range p.touched {
		img[t] = append([]byte(nil), t.base...)
	}
	for i, pc := range pieces {
		if drop[i] {
			continue
		}
		b := img[pc.t]
		if pc.trunc {
			img[pc.t] = b[:0]
			continue
		}
		end := int(pc.off) + len(pc.data)
		for len(b) < end {
			b = append(b, 0)
		}
		copy(b[pc.off:], pc.data)
		img[pc.t] = b
	}
	for _, t := range p.touched {
		b := img[t]
		if p.pl.LenFull {
			for len(b) < len(t.ino.Data) {
				b = append(b, 0)
			}
		}
		t.ino.Data = b
	}
	w.Stats.FaultsFired["powerloss"]++
	p.Fired = append(p.Fired, "powerloss")
	w.Log.Addf("p%d powerloss pieces=%d dropped=%d lenfull=%v", p.ID, len(pieces), len(drop), p.pl.LenFull)
}
