// Package simioutil stands in for io/ioutil in the rewritten cmd/** packages.
package simioutil

import (
	"io"

	"github.com/go-gts/gts/internal/verifsim/simos"
)

var Discard = io.Discard

func ReadAll(r io.Reader) ([]byte, error)  { return io.ReadAll(r) }
func NopCloser(r io.Reader) io.ReadCloser  { return io.NopCloser(r) }
func ReadFile(name string) ([]byte, error) { return simos.ReadFile(name) }
func WriteFile(name string, data []byte, perm simos.FileMode) error {
	return simos.WriteFile(name, data, perm)
}
func TempFile(dir, pattern string) (*simos.File, error) { return simos.CreateTemp(dir, pattern) }
func TempDir(dir, pattern string) (string, error)       { return simos.MkdirTemp(dir, pattern) }
func ReadDir(name string) ([]simos.FileInfo, error)     { return simos.ListDirInfo(name) }
