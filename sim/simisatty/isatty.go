// Package simisatty stands in for github.com/mattn/go-isatty.
package simisatty

import "github.com/go-gts/gts/internal/verifsim/simos"

func IsTerminal(fd uintptr) bool       { return simos.IsTTY(fd) }
func IsCygwinTerminal(fd uintptr) bool { return false }
