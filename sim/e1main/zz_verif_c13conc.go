package main

// C13, concurrent parties: several simulated processes work on ONE cache
// entry at the same time - writers that create, fill and finalise it the way
// the CLI does (one of them may fail or be killed), readers that open it and
// read it - and a seeded scheduler decides, operation by operation, whose
// turn it is. Every party runs the real cmd/cache code on its own goroutine;
// a goroutine only ever runs between two calls of the scheduler hook at the
// start of a simulated I/O operation, so exactly one runs at any time and a
// schedule (a list of party numbers) is one exactly repeatable interleaving.
//
// This is `gts x | head` in one terminal while the same command runs in
// another, `make -j`, a viewer reading an entry while it is being rewritten.

import (
	"bytes"
	"encoding/hex"
	"encoding/json"
	"fmt"
	"io"
	"runtime/debug"

	"github.com/go-gts/gts/cmd/cache"
	"github.com/go-gts/gts/internal/verifsim/core"
	"github.com/go-gts/gts/internal/verifsim/simos"
)

type concParty struct {
	Role   string `json:"role"` // writer | failing-writer | reader | purger (gts cache purge: removes every file of the directory)
	Writes []int  `json:"writes,omitempty"`
	// KillAt: the party is killed inside its KillAt-th operation (torn by Torn
	// bytes if that is a write); < 0: it runs to its end.
	KillAt int `json:"kill_at"`
	Torn   int `json:"torn,omitempty"`
	// FailAfter: a failing writer gives up (as a run whose input turns out to
	// be bad does) after this many Write calls.
	FailAfter int `json:"fail_after,omitempty"`
	// Key: which of the scenario's entries the party works on.
	Key int `json:"key,omitempty"`
	// After: what a writer does with its File once it is done with it, beyond
	// the one call that is needed - legal, if sloppy, uses of the API:
	// "close-twice", "discard-after-close" (defer f.Discard(); return f.Close()).
	After string `json:"after,omitempty"`
}

type concScenario struct {
	Hash string    `json:"hash"`
	Key  [2]string `json:"key"`
	Body bodySpec  `json:"body"`
	// Key2 / Body2: a second entry, for parties with Key == 1: a process that
	// writes two entries at overlapping times (a server, a batch job).
	Key2  *[2]string `json:"key2,omitempty"`
	Body2 *bodySpec  `json:"body2,omitempty"`
	// Prelude: writers that run to their end, one after the other, in the
	// same address space before the parties start.
	Prelude []concParty `json:"prelude,omitempty"`
	Level   int         `json:"level"`
	Seeded  bool        `json:"seeded,omitempty"` // a finished entry is there before anybody starts
	Parties []concParty `json:"parties"`
	// Schedule: party numbers; each grants that party one operation. When it
	// is used up (or names a party that has ended) the parties that are left
	// take turns.
	Schedule []int `json:"schedule"`
}

type concResult struct {
	role     string
	killed   bool
	pnc      string
	opened   bool // reader: Open returned nil
	readErr  error
	got      []byte
	ops      int
	finished bool
}

type concRun struct {
	sc     *concScenario
	w      *simos.World
	path   string
	body   []byte
	bodies [2][]byte // per key
	res    *core.Result
	vs     []core.Violation
}

func (r *concRun) violate(class, sig, detail string) {
	b, _ := json.Marshal(c13Scenario{Kind: "conc", Conc: r.sc})
	r.vs = append(r.vs, core.Violation{Class: class, Signature: sig, Detail: detail, Scenario: b})
}

func concKeys(sc *concScenario, ki int) (rs, ds []byte, path string) {
	k := sc.Key
	if ki == 1 && sc.Key2 != nil {
		k = *sc.Key2
	}
	rs, _ = hex.DecodeString(k[0])
	ds, _ = hex.DecodeString(k[1])
	h := newHashByName(sc.Hash)
	h.Write(append(append([]byte(nil), rs...), ds...))
	return rs, ds, libCacheDir + "/" + hex.EncodeToString(h.Sum(nil))
}

// writerBody is what the CLI does with an entry, as of cmd/gts/io.go: look
// for it, create it when it is not usable, tee the output into it, and at the
// end finalise it - or, when the run failed, unlink and discard it.
func writerBody(sc *concScenario, p concParty, body []byte) {
	h := newHashByName(sc.Hash)
	rs, ds, _ := concKeys(sc, keyOf(sc, p))
	if f, err := cache.Open(libCacheDir, h, append([]byte(nil), rs...), append([]byte(nil), ds...)); err == nil {
		// a hit: the run replays the entry instead of writing one
		io.Copy(io.Discard, f)
		f.Close()
		return
	} else if f != nil {
		f.Close()
	}
	f, err := cache.CreateLevel(libCacheDir, h, append([]byte(nil), rs...), append([]byte(nil), ds...), sc.Level)
	if err != nil {
		if f != nil {
			if !hasDiscard(f) {
				simos.Remove(f.Name())
			}
			discard(f)
		}
		return
	}
	rest := body
	for i := 0; len(rest) > 0; i++ {
		if p.Role == "failing-writer" && i >= p.FailAfter {
			if !hasDiscard(f) {
				simos.Remove(f.Name())
			}
			discard(f)
			return
		}
		n := len(rest)
		if len(p.Writes) > 0 {
			if c := p.Writes[i%len(p.Writes)]; c >= 1 && c < n {
				n = c
			}
		}
		if _, err := f.Write(rest[:n]); err != nil {
			if !hasDiscard(f) {
				simos.Remove(f.Name())
			}
			discard(f)
			return
		}
		rest = rest[n:]
	}
	if p.Role == "failing-writer" {
		if !hasDiscard(f) {
			simos.Remove(f.Name())
		}
		discard(f)
		return
	}
	if err := f.Close(); err != nil && !hasDiscard(f) {
		simos.Remove(f.Name())
	}
	switch p.After {
	case "close-twice":
		f.Close()
	case "discard-after-close":
		if hasDiscard(f) {
			discard(f)
		}
	}
}

func readerBody(sc *concScenario, p concParty, out *concResult) {
	h := newHashByName(sc.Hash)
	rs, ds, _ := concKeys(sc, keyOf(sc, p))
	f, err := cache.Open(libCacheDir, h, append([]byte(nil), rs...), append([]byte(nil), ds...))
	if err != nil {
		if f != nil {
			f.Close()
		}
		return
	}
	out.opened = true
	out.got, out.readErr = io.ReadAll(f)
	f.Close()
}

type concEvent struct {
	party int
	done  bool
}

// exec runs the scenario under its schedule and applies the oracles.
func (r *concRun) exec() {
	sc := r.sc
	core.Tick()
	r.w = simos.NewWorld(simos.Env{CacheHome: libCacheHome, TmpDir: "/tmp"}, false)
	r.w.MkdirAllRaw(libCacheDir)
	r.w.MkdirAllRaw("/tmp")
	simos.W = r.w
	_, _, r.path = concKeys(sc, 0)
	r.body = sc.Body.bytes()
	r.bodies[0] = r.body
	if sc.Key2 != nil && sc.Body2 != nil {
		r.bodies[1] = sc.Body2.bytes()
	}

	// what a finished, undisturbed write of this entry looks like
	solo := simos.NewWorld(simos.Env{CacheHome: libCacheHome, TmpDir: "/tmp"}, false)
	solo.MkdirAllRaw(libCacheDir)
	simos.W = solo
	solo.StartProc(simos.ProcSpec{SinkLimit: -1})
	writerBody(sc, concParty{Role: "writer", KillAt: -1}, r.body)
	solo.EndProc(0)
	image, ok := solo.GetFile(r.path)
	simos.W = r.w
	if !ok {
		r.res.Harness = "c13 conc: the undisturbed write left no entry"
		return
	}
	if sc.Seeded {
		r.w.PutFile(r.path, image)
	}

	// writers that come and go, one after the other, before anybody overlaps
	for _, p := range sc.Prelude {
		p.KillAt = -1
		r.w.StartProc(simos.ProcSpec{SinkLimit: -1})
		func() {
			defer func() {
				if x := recover(); x != nil {
					r.violate("panic", panicSite(fmt.Sprintf("%v\n%s", x, debug.Stack())), fmt.Sprintf("a writer of the prelude panicked: %v", x))
				}
			}()
			writerBody(sc, p, r.bodies[keyOf(sc, p)])
		}()
		r.w.EndProc(0)
	}
	if len(r.vs) > 0 {
		return
	}

	n := len(sc.Parties)
	procs := make([]*simos.Proc, n)
	results := make([]*concResult, n)
	resume := make([]chan struct{}, n)
	events := make(chan concEvent)
	index := map[*simos.Proc]int{}
	for i, p := range sc.Parties {
		spec := simos.ProcSpec{SinkLimit: -1}
		if p.KillAt >= 0 {
			spec.Faults = []simos.Fault{{AtOp: p.KillAt, Kind: "kill", Torn: p.Torn}}
		}
		procs[i] = r.w.StartProc(spec)
		index[procs[i]] = i
		results[i] = &concResult{role: p.Role}
		resume[i] = make(chan struct{})
	}
	// the hook: park until it is this process's turn again
	r.w.Sched = func(p *simos.Proc) {
		i := index[p]
		events <- concEvent{i, false}
		<-resume[i]
		r.w.P = procs[i]
	}
	for i := range sc.Parties {
		i := i
		go func() {
			<-resume[i]
			r.w.P = procs[i]
			func() {
				defer func() {
					if x := recover(); x != nil {
						if _, ok := x.(simos.CrashSentinel); ok || procs[i].Crashed {
							results[i].killed = true
							return
						}
						results[i].pnc = fmt.Sprintf("%v\n%s", x, debug.Stack())
					}
				}()
				if sc.Parties[i].Role == "purger" {
					if ents, err := simos.ReadDir(libCacheDir); err == nil {
						for _, e := range ents {
							simos.Remove(libCacheDir + "/" + e.Name())
						}
					}
				} else if sc.Parties[i].Role == "reader" {
					readerBody(sc, sc.Parties[i], results[i])
				} else {
					writerBody(sc, sc.Parties[i], r.bodies[keyOf(sc, sc.Parties[i])])
				}
			}()
			results[i].finished = true
			events <- concEvent{i, true}
		}()
	}
	// Every party first runs up to its first operation, one after the other,
	// so that all of them are parked inside the hook (or have ended).
	alive := make([]bool, n)
	for i := 0; i < n; i++ {
		r.w.P = procs[i]
		resume[i] <- struct{}{}
		ev := <-events
		alive[i] = !ev.done
	}
	left := func() int {
		c := 0
		for _, a := range alive {
			if a {
				c++
			}
		}
		return c
	}
	grant := func(i int) {
		core.Tick()
		r.w.P = procs[i]
		resume[i] <- struct{}{}
		ev := <-events
		results[i].ops++
		if ev.done {
			alive[i] = false
		}
	}
	steps := 0
	for _, i := range sc.Schedule {
		if left() == 0 {
			break
		}
		i = ((i % n) + n) % n
		if alive[i] {
			grant(i)
			steps++
		}
	}
	for rr := 0; left() > 0; rr++ {
		if i := rr % n; alive[i] {
			grant(i)
			steps++
		}
		if steps > 2000000 {
			r.res.Harness = "c13 conc: the parties do not come to an end"
			return
		}
	}
	r.w.Sched = nil
	for i := range procs {
		r.w.P = procs[i]
		r.w.EndProc(0)
	}
	r.res.SimOps += r.w.Stats.Ops
	r.res.Evaluations++
	if r.res.Probes == nil {
		r.res.Probes = map[string]int{}
	}
	r.res.Probes["concurrent_party_scenarios"]++

	shape := ""
	for i, p := range sc.Parties {
		if i > 0 {
			shape += "+"
		}
		shape += p.Role
		if results[i].killed {
			shape += "(killed)"
		}
	}
	for i, res := range results {
		if res.pnc != "" {
			r.violate("panic", panicSite(res.pnc), fmt.Sprintf("party %d (%s) panicked: %s", i, res.role, firstLine(res.pnc)))
			return
		}
	}
	// (R) a reader that was given the entry gets exactly what was written
	for i, res := range results {
		if res.role != "reader" || !res.opened || res.killed {
			continue
		}
		r.res.Probes["concurrent_reader_opened_the_entry"]++
		want := r.bodies[keyOf(sc, sc.Parties[i])]
		switch {
		case res.readErr == nil && !bytes.Equal(res.got, want):
			r.violate("wrong-bytes", "concurrent:"+shape, fmt.Sprintf("party %d, a reader, opened the entry while others were working on it and read %d bytes that are not the %d written, without an error", i, len(res.got), len(want)))
		case res.readErr != nil:
			r.violate("read-error-after-open", "concurrent:"+shape, fmt.Sprintf("party %d, a reader, opened the entry (all digests verified) while others were working on it; reading it then failed after %d of %d bytes: %v", i, len(res.got), len(want), res.readErr))
		}
	}
	// (S) when everybody is gone: an entry opens only if it is a finished write
	outcome, opens := "absent", false
	nkeys := 1
	if sc.Key2 != nil && sc.Body2 != nil {
		nkeys = 2
	}
	for ki := 0; ki < nkeys; ki++ {
		var oerr, rerr error
		var got []byte
		want := r.bodies[ki]
		rs, ds, path := concKeys(sc, ki)
		r.w.StartProc(simos.ProcSpec{SinkLimit: -1})
		func() {
			defer func() {
				if x := recover(); x != nil {
					oerr = fmt.Errorf("panic: %v", x)
					r.violate("panic", panicSite(fmt.Sprintf("%v\n%s", x, debug.Stack())), fmt.Sprintf("Open panicked after the parties had gone: %v", x))
				}
			}()
			h := newHashByName(sc.Hash)
			f, err := cache.Open(libCacheDir, h, rs, ds)
			oerr = err
			if err != nil {
				if f != nil {
					f.Close()
				}
				return
			}
			got, rerr = io.ReadAll(f)
			f.Close()
		}()
		r.w.EndProc(0)
		cur, exists := r.w.GetFile(path)
		if ki == 0 {
			switch {
			case exists && bytes.Equal(cur, image):
				outcome = "complete"
			case exists:
				outcome = "other"
			}
			opens = oerr == nil
		}
		if oerr != nil {
			continue
		}
		r.res.Probes["concurrent_final_entry_opens"]++
		// The image of an undisturbed write is the reference, but what the
		// statement demands is about reading: an entry that opens must read
		// back as exactly the bytes that were written.
		if rerr != nil || !bytes.Equal(got, want) {
			same := 0
			for same < len(got) && same < len(want) && got[same] == want[same] {
				same++
			}
			r.violate("accepted-non-image", "concurrent:"+shape, fmt.Sprintf("after %s had worked on the cache under schedule %v..., Open of entry %d returned nil (all three digests verify) on %d bytes that no single writer wrote; reading gives %d bytes of which the first %d agree with the %d written, err=%v", shape, trimInts(sc.Schedule, 12), ki, len(cur), len(got), same, len(want), rerr))
		} else if ki == 0 && (!exists || !bytes.Equal(cur, image)) {
			r.res.Probes["concurrent_final_entry_reads_back_but_differs_from_the_solo_image"]++
		}
	}
	k := fmt.Sprintf("conc|%s|%s|keys=%d|prelude=%d|final=%s|open=%v", shape, sc.Body.class(), nkeys, len(sc.Prelude), outcome, opens)
	for _, have := range r.res.Keys {
		if have == k {
			return
		}
	}
	r.res.Keys = append(r.res.Keys, k)
}

func keyOf(sc *concScenario, p concParty) int {
	if p.Key == 1 && sc.Key2 != nil && sc.Body2 != nil {
		return 1
	}
	return 0
}

func trimInts(s []int, n int) []int {
	if len(s) > n {
		return s[:n]
	}
	return s
}

func genConc(r *core.RNG, tier string) *concScenario {
	sc := &concScenario{Hash: []string{"sha1", "sha1", "md5", "sha256"}[r.Intn(4)], Level: flateLevels[r.Intn(len(flateLevels))]}
	size := newHashByName(sc.Hash).Size()
	sc.Key = [2]string{randKey(r, size), randKey(r, size)}
	switch r.Intn(4) {
	case 0:
		sc.Body = bodySpec{Kind: "text", Len: r.Range(1, 3000), Seed: r.U64()}
	case 1:
		sc.Body = bodySpec{Kind: "random", Len: r.Range(2000, 40000), Seed: r.U64()}
	case 2:
		sc.Body = bodySpec{Kind: "random", Len: r.Range(70000, 300000), Seed: r.U64()}
	default:
		sc.Body = bodySpec{Kind: "corpus", Corpus: "NC_001422.gb", Repeat: r.Range(1, 4)}
	}
	sc.Seeded = r.Chance(1, 4)
	two := r.Chance(1, 3)
	if two {
		k2 := [2]string{randKey(r, size), randKey(r, size)}
		b2 := bodySpec{Kind: []string{"text", "random"}[r.Intn(2)], Len: r.Range(1, 30000), Seed: r.U64()}
		sc.Key2, sc.Body2 = &k2, &b2
	}
	afters := []string{"", "", "", "close-twice", "discard-after-close"}
	for i := r.Pick([]int{5, 2, 1}); i > 0; i-- {
		sc.Prelude = append(sc.Prelude, concParty{Role: "writer", Writes: genWrites(r), KillAt: -1, Key: r.Intn(2), After: afters[r.Intn(len(afters))]})
	}
	np := r.Range(2, 3)
	for i := 0; i < np; i++ {
		p := concParty{Role: []string{"writer", "writer", "writer", "failing-writer", "reader", "reader", "purger"}[r.Intn(7)], Writes: genWrites(r), KillAt: -1}
		if i == 0 {
			p.Role = "writer"
		}
		if p.Role == "failing-writer" {
			p.FailAfter = r.Intn(4)
		}
		if p.Role != "reader" && p.Role != "purger" && r.Chance(1, 3) {
			p.KillAt = r.Intn(60)
			p.Torn = r.Intn(300)
		}
		if two {
			p.Key = r.Intn(2)
		}
		p.After = afters[r.Intn(len(afters))]
		sc.Parties = append(sc.Parties, p)
	}
	// bursts: a party runs for a while, then another; short bursts around the
	// places where a protocol has something in flight
	for len(sc.Schedule) < 400 {
		who := r.Intn(np)
		burst := []int{1, 1, 2, 3, 5, 8, 20, 60}[r.Intn(8)]
		for j := 0; j < burst; j++ {
			sc.Schedule = append(sc.Schedule, who)
		}
	}
	return sc
}

func concRunSeed(tier string, seed uint64, r *core.RNG) *core.Result {
	res := &core.Result{Seed: seed, Probes: map[string]int{}, Faults: map[string]int{}}
	sc := genConc(r, tier)
	core.Current, core.CurrentSig = c13Scenario{Kind: "conc", Conc: sc}, "conc"
	x := &concRun{sc: sc, res: res}
	x.exec()
	res.Violations = x.vs
	if x.w != nil {
		res.Digest = x.w.Log.Digest()
		for k, v := range x.w.Stats.FaultsFired {
			res.Faults[k] += v
		}
	}
	b, _ := json.Marshal(c13Scenario{Kind: "conc", Conc: sc})
	res.Sample = b
	return res
}

func concReplay(sc *concScenario) ([]core.Violation, string, error) {
	res := &core.Result{Probes: map[string]int{}, Faults: map[string]int{}}
	x := &concRun{sc: sc, res: res}
	x.exec()
	if res.Harness != "" {
		return nil, "", fmt.Errorf("%s", res.Harness)
	}
	return x.vs, x.w.Log.Digest(), nil
}

func concCandidates(sc *concScenario) []*concScenario {
	var out []*concScenario
	clone := func() *concScenario {
		b, _ := json.Marshal(sc)
		var c concScenario
		json.Unmarshal(b, &c)
		return &c
	}
	// fewer parties
	for i := range sc.Parties {
		if len(sc.Parties) > 1 {
			c := clone()
			c.Parties = append(c.Parties[:i], c.Parties[i+1:]...)
			for k, s := range c.Schedule {
				if s == i {
					c.Schedule[k] = 0
				} else if s > i {
					c.Schedule[k] = s - 1
				}
			}
			out = append(out, c)
		}
	}
	// a shorter schedule: halves, then single grants
	if n := len(sc.Schedule); n > 0 {
		for _, cut := range []int{n / 2, n * 3 / 4, n - 1} {
			if cut < n {
				c := clone()
				c.Schedule = c.Schedule[:cut]
				out = append(out, c)
			}
		}
		for i := 0; i < n && i < 80; i++ {
			c := clone()
			c.Schedule = append(c.Schedule[:i], c.Schedule[i+1:]...)
			out = append(out, c)
		}
	}
	for i, p := range sc.Parties {
		if p.KillAt >= 0 {
			c := clone()
			c.Parties[i].KillAt = -1
			out = append(out, c)
		}
		if len(p.Writes) > 0 {
			c := clone()
			c.Parties[i].Writes = nil
			out = append(out, c)
		}
		if p.Torn > 0 {
			c := clone()
			c.Parties[i].Torn = 0
			out = append(out, c)
		}
	}
	if sc.Seeded {
		c := clone()
		c.Seeded = false
		out = append(out, c)
	}
	for i := range sc.Prelude {
		c := clone()
		c.Prelude = append(c.Prelude[:i], c.Prelude[i+1:]...)
		out = append(out, c)
	}
	if sc.Key2 != nil {
		c := clone()
		c.Key2, c.Body2 = nil, nil
		out = append(out, c)
	}
	for i, p := range sc.Parties {
		if p.After != "" {
			c := clone()
			c.Parties[i].After = ""
			out = append(out, c)
		}
	}
	for _, nb := range []bodySpec{{Kind: "text", Len: 1, Seed: 1}, {Kind: "text", Len: 200, Seed: 1}, {Kind: "random", Len: 5000, Seed: 1}} {
		if len(nb.bytes()) < len(sc.Body.bytes()) {
			c := clone()
			c.Body = nb
			out = append(out, c)
		}
	}
	if sc.Level != 0 {
		c := clone()
		c.Level = 0
		out = append(out, c)
	}
	return out
}
