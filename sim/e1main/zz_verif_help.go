package main

// Drift detection for the C14 option tables: every cached command's own
// --help text is read (in the simulator) and compared with the tables the
// history generator draws from. A switch the tables do not know is added to the
// pool of its command, so that a newly introduced option is exercised - and, if
// it was forgotten in the cache key, caught - without anybody editing the
// harness. A valued option the tables do not know can only be reported.

import (
	"io"
	realos "os"
	"regexp"
	"sort"
	"strings"
	"sync"

	"github.com/go-gts/gts/internal/verifsim/simos"
)

var helpOnce sync.Once
var helpDrift []string

var helpFlagLine = regexp.MustCompile(`^  (-[A-Za-z])?(?: <[^>]*>)?(?:, )?(--[a-z][a-z-]*)?(=?<[^>]*>)?`)

func captureHelp(cmd string) string {
	f, err := realos.CreateTemp("", "verif-help-")
	if err != nil {
		return ""
	}
	defer realos.Remove(f.Name())
	saved := realos.Stderr
	realos.Stderr = f
	w := newCliWorld(cliEnv{Cache: "ok", Tmp: "ok"}, false)
	runGts(w, []string{cmd, "--help"}, simos.ProcSpec{SinkLimit: -1})
	realos.Stderr = saved
	f.Seek(0, io.SeekStart)
	b, _ := io.ReadAll(f)
	f.Close()
	return string(b)
}

func loadHelpTables() {
	helpOnce.Do(func() {
		for _, cmd := range cachedCommands {
			text := captureHelp(cmd)
			known := map[string]bool{"--no-cache": true, "-o": true, "--output": true, "-F": true, "--format": true, "-h": true, "--help": true, "--version": true}
			for _, s := range switchPools[cmd] {
				known[s] = true
			}
			for f := range optPools[cmd] {
				known[f] = true
			}
			for _, line := range strings.Split(text, "\n") {
				if !strings.HasPrefix(line, "  -") {
					continue
				}
				m := helpFlagLine.FindStringSubmatch(line)
				if m == nil {
					continue
				}
				short, long := m[1], m[2]
				valued := strings.Contains(strings.SplitN(line, "   ", 2)[0][2:], "<")
				if (short != "" && known[short]) || (long != "" && known[long]) {
					continue
				}
				name := short
				if name == "" {
					name = long
				}
				if name == "" {
					continue
				}
				if valued {
					helpDrift = append(helpDrift, "option-table-drift:"+cmd+":valued-option-not-in-tables:"+name)
				} else {
					switchPools[cmd] = append(switchPools[cmd], name)
					helpDrift = append(helpDrift, "option-table-drift:"+cmd+":switch-added-to-pool:"+name)
				}
			}
		}
		sort.Strings(helpDrift)
	})
}
