package main

// C14: caching is transparent. Seeded histories of simulated gts processes
// over one shared simulated cache directory, each step compared with the same
// invocation run with --no-cache on a pristine machine. DESIGN.md §4.

import (
	"bytes"
	"regexp"
	"encoding/base64"
	"encoding/hex"
	"encoding/json"
	"fmt"
	"strconv"
	"strings"

	"github.com/go-gts/gts/internal/verifsim/core"
	"github.com/go-gts/gts/internal/verifsim/simos"
)

// ---- the workload: invocations ----

type invocation struct {
	Cmd   string
	Opts  [][]string // each element: a switch (1 token) or option+value(s)
	Pos   []string
	Input string
	Piped bool
	// Redirect: with Piped, stdin is a descriptor on the input file (gts < file) rather than a pipe
	Redirect bool
	// Skip: with Redirect, how many records of the file an earlier reader of
	// the same descriptor has consumed ({ read ...; gts ...; } < file)
	Skip int
	Out  string
	Fmt      string
	// Fifo: the input path (not Piped) is a named pipe delivering the file's
	// content (gts cmd <(cat file)); FifoSec: so are the other input files
	// among the positional arguments.
	Fifo    bool
	FifoSec bool
}

func fifoPath(p string) string {
	if strings.HasPrefix(p, "/u/") {
		return cliFifo + strings.TrimPrefix(p, "/u")
	}
	return p
}

func (iv invocation) argv() []string {
	a := []string{iv.Cmd}
	for _, o := range iv.Opts {
		a = append(a, o...)
	}
	if iv.Fmt != "" {
		a = append(a, "-F", iv.Fmt)
	}
	if iv.Out != "" {
		a = append(a, "-o", iv.Out)
	}
	for _, p := range iv.Pos {
		if iv.FifoSec {
			p = fifoPath(p)
		}
		a = append(a, p)
	}
	if !iv.Piped {
		if iv.Fifo {
			a = append(a, fifoPath(iv.Input))
		} else {
			a = append(a, iv.Input)
		}
	}
	return a
}

func (iv invocation) clone() invocation {
	c := iv
	c.Opts = nil
	for _, o := range iv.Opts {
		c.Opts = append(c.Opts, append([]string(nil), o...))
	}
	c.Pos = append([]string(nil), iv.Pos...)
	return c
}

const preamble = "this line was consumed by the caller before gts started\n"

func (iv invocation) step(r *core.RNG) *runStep {
	rs := &runStep{Argv: iv.argv()}
	if !iv.Piped && (iv.Fifo || iv.FifoSec) {
		rs.Chunks = genChunks(r)
	}
	if iv.Piped {
		rs.Stdin = iv.Input
		rs.Chunks = genChunks(r)
		if iv.Redirect {
			// gts < file: stdin is the file itself, possibly already read in part
			rs.StdinFile = true
			if f, ok := stockFiles[iv.Input]; ok && f.Prefix != "" {
				rs.StdinOffset = len(f.Prefix)
			} else if ok && iv.Skip > 0 {
				rs.StdinOffset = recordStart(f.bytes(), iv.Skip)
			}
		}
	}
	return rs
}

// recordStart is the offset at which record number k (from 0) of a GenBank or
// FASTA file starts; 0 when the file has no such record.
func recordStart(data []byte, k int) int {
	off := 0
	for ; k > 0; k-- {
		var i int
		if bytes.HasPrefix(data[off:], []byte(">")) {
			if i = bytes.Index(data[off:], []byte("\n>")); i >= 0 {
				i++
			}
		} else if i = bytes.Index(data[off:], []byte("\n//\n")); i >= 0 {
			i += 4
		}
		if i < 0 || off+i >= len(data) {
			return 0
		}
		off += i
	}
	return off
}

func genChunks(r *core.RNG) []int {
	switch r.Intn(6) {
	case 0:
		return nil
	case 1:
		return []int{1}
	case 2:
		return []int{4096}
	case 3:
		return []int{4095, 1, 4097}
	case 4:
		return []int{r.Range(1, 300)}
	}
	n := r.Range(2, 5)
	c := make([]int, n)
	for i := range c {
		c[i] = r.Range(1, 9000)
	}
	return c
}

// the user's files every history can draw from
var stockFiles = map[string]fileSpec{
	"/u/phix.gb":    {Parts: []string{"NC_001422.gb"}},
	"/u/part.gb":    {Parts: []string{"NC_001422_part.gb"}},
	"/u/pbat.gb":    {Parts: []string{"pBAT5.txt"}},
	"/u/ecoli.gb":   {Parts: []string{"NC_000913.3.min.gb"}},
	"/u/phix.fasta": {Parts: []string{"NC_001422.fasta"}},
	"/u/part.fasta": {Parts: []string{"NC_001422_part.fasta"}},
	"/u/two.gb":     {Parts: []string{"NC_001422_part.gb", "pBAT5.txt"}},
	"/u/three.gb":   {Parts: []string{"pBAT5.txt", "NC_001422_part.gb", "NC_001422_part.gb"}},
	"/u/bad2.gb":    {Parts: []string{"NC_001422_part.gb", "NC_001422_part.gb"}, Edits: []editSpec{{Op: "truncate", Len: 6245 + 3000}}},
	"/u/badmid.gb":  {Parts: []string{"pBAT5.txt", "NC_001422_part.gb"}, Edits: []editSpec{{Op: "replace", At: 7448, Old: "FEATURES", Text: "FEATURE$"}}},
	"/u/garbage.gb": {Parts: []string{"NC_001422_part.gb"}, Text: "this is not a record\n"},
	"/u/two.fasta":  {Parts: []string{"NC_001422_part.fasta"}, Text: ">second record\nACGTACGTAAACCCGGGTTT\nACGT\n"},
	"/u/empty.gb":   {Text: ""},
	"/u/pad4096.gb": {Parts: []string{"pBAT5.txt"}, Edits: []editSpec{{Op: "pad-to", Len: 8192}}},
	"/u/pad32k.gb":  {Parts: []string{"NC_001422.gb"}, Edits: []editSpec{{Op: "pad-to", Len: 32768}}},
	"/u/pad64k.gb":  {Parts: []string{"NC_001422.gb", "NC_001422.gb"}, Edits: []editSpec{{Op: "pad-to", Len: 65536}}},
	"/u/pad64k1.gb": {Parts: []string{"NC_001422.gb", "NC_001422.gb"}, Edits: []editSpec{{Op: "pad-to", Len: 65537}}},
	"/u/multi.gb": {Parts: []string{"NC_001422_part.gb"}, Edits: []editSpec{{Op: "replace", Old: "                     /codon_start=1\n",
		Text: "                     /codon_start=1\n                     /note=\"first note\"\n                     /note=\"second note\"\n                     /db_xref=\"A:1\"\n                     /db_xref=\"B:2\"\n"}}},
	"/u/pre.gb":      {Prefix: preamble, Parts: []string{"NC_001422_part.gb"}},
	"/u/pre.fasta":   {Prefix: preamble, Parts: []string{"NC_001422_part.fasta"}, Text: ">second\nACGTTGCA\n"},
	"/u/big.gb":      {Parts: []string{"NC_001422.gb", "NC_001422.gb", "NC_001422.gb"}},
	"/u/big.fasta":   {Parts: []string{"NC_001422.fasta", "NC_001422.fasta", "NC_001422.fasta", "NC_001422.fasta", "NC_001422.fasta", "NC_001422.fasta", "NC_001422.fasta", "NC_001422.fasta", "NC_001422.fasta", "NC_001422.fasta", "NC_001422.fasta", "NC_001422.fasta", "NC_001422.fasta"}},
	// records of very different sizes in one stream: a few residues, then 43 000 (more than any buffer between a command and its output), then a few again
	"/u/sizes.fasta": {Prefix: ">small one\nGATTACAGATTACAGATTACA\n", Parts: []string{"NC_001422.fasta", "NC_001422.fasta", "NC_001422.fasta", "NC_001422.fasta", "NC_001422.fasta", "NC_001422.fasta", "NC_001422.fasta", "NC_001422.fasta"},
		Text: ">small two\nACGTACGT\n", Edits: []editSpec{{Op: "merge-records", At: 2, Len: 7}}},
	"/u/long.fasta": {Parts: []string{"NC_001422.fasta", "NC_001422.fasta", "NC_001422.fasta", "NC_001422.fasta", "NC_001422.fasta", "NC_001422.fasta", "NC_001422.fasta"}, Edits: []editSpec{{Op: "merge-records", At: 1, Len: 6}}},
	"/u/guest.fasta": {Text: ">guest\nGATTACAGATTACA\n"},
	"/u/guest.gb":    {Parts: []string{"NC_001422_part.gb"}},
	"/u/guest2.gb":   {Parts: []string{"NC_001422_part.gb", "NC_001422_part.gb"}},
	"/u/query.fasta": {Text: ">q1\nGAGTTTTATC\n>q2\nTTTTTT\n"},
	"/u/huge.fasta":  {Parts: []string{"NC_001422.fasta"}, Repeat: 2100},
	"/u/mb.fasta":    {Parts: []string{"NC_001422.fasta"}, Repeat: 240},
	"/u/feat.tbl": {Text: "     misc_feature    10..50\n                     /note=\"annotated by the simulator\"\n" +
		"     gene            complement(60..120)\n                     /gene=\"sim\"\n"},
	// files whose whole content is what a literal (@...) argument of insert / search looks like
	"/u/lit.txt":   {Text: "@ACGT"},
	"/u/lit2.txt":  {Text: "@ATGC"},
	"/u/feat2.tbl": {Text: "     misc_feature    1..9\n                     /note=\"other table\"\n"},
}

var primaryInputs = []string{"/u/part.gb", "/u/part.gb", "/u/pbat.gb", "/u/pbat.gb", "/u/ecoli.gb", "/u/two.gb", "/u/three.gb", "/u/phix.gb",
	"/u/part.fasta", "/u/two.fasta", "/u/phix.fasta", "/u/bad2.gb", "/u/badmid.gb", "/u/garbage.gb", "/u/empty.gb",
	"/u/part.gb", "/u/pbat.gb", "/u/two.gb", "/u/part.fasta", "/u/two.fasta", "/u/ecoli.gb", "/u/big.gb", "/u/big.fasta",
	"/u/pad4096.gb", "/u/pad32k.gb", "/u/pad64k.gb", "/u/pad64k1.gb", "/u/multi.gb", "/u/multi.gb", "/u/sizes.fasta", "/u/sizes.fasta", "/u/long.fasta"}

var locators = []string{"^..$", "1..10", "3", "CDS", "gene", "@^-10..^", "$-20..$", "10..1", "source", "^", "$", "CDS@^..$", "gene/gene=A",
	"100", "1..100", "@^..^+30", "20..40@^-5..$+5", "misc_feature", "^+5..$-5", "((("}
var selectors = []string{"CDS", "gene", "CDS/gene=A", "/product", "source", "misc_feature", "/gene", "CDS/product=protein", "rep_origin", "/note"}
// pickLists: lists and ranges, several of them spellings that look alike and
// mean different things (an open end against an end of 0) or the same thing
// (a repeated or reordered member, a leading zero)
var pickLists = []string{"1", "2-3", "1,3", "-2", "2-", "1-", "2", "5", "2-0", "0-2", "3-2", "1,1,3", "3,1", "02", "2-2", "0", "0-"}
var locations = []string{"1..10", "complement(5..20)", "join(1..3,7..9)", "15", "<1..>30", "bogus("}
var keys = []string{"misc_feature", "gene", "CDS", "promoter"}
var quals = []string{"note=hello", "gene=x", "note=a b c", "pseudo", "product=some protein", "note=caf\\xe9", "note=caf\\xe8", "gene=\\xff", "gene=\\xc3\\x28"}
var queries = []string{"@ATGC", "@GATTACA", "@TTTT", "@GAGTTTTATCGCTTCC", "@ACGN", "/u/guest.fasta", "@RRYY", "/u/query.fasta"}
// formats: every name seqio.ToFileType knows (also those gts cannot write and falls back on), and one it does not
var formats = []string{"fasta", "genbank", "gb", "fasta", "genbank", "bogus", "embl", "emb", "fastq"}

// posPools names, per command, the pool each positional argument is drawn
// from; optPools the pool of each valued option. They let a history change
// exactly one argument between two invocations.
var guestPool = []string{"@ACGT", "@GGGGCCCC", "@ACGA", "@TTTT", "/u/guest.fasta", "/u/guest.gb", "/u/guest.gb", "/u/guest2.gb"}
var hostPool = []string{"/u/part.gb", "/u/pbat.gb", "/u/two.gb", "/u/part.fasta"}
var tablePool = []string{"/u/feat.tbl", "/u/feat.tbl", "/u/feat2.tbl"}
var posPools = map[string][][]string{
	"annotate": {tablePool}, "define": {keys, locations}, "delete": {locators}, "infix": {locators, hostPool},
	"insert": {locators, guestPool}, "pick": {pickLists}, "rotate": {locators}, "search": {queries}, "split": {locators},
}
var sepPool = []string{";", "|", "/", "ab", ",", ",;", "a", ";|", "\\xfe", "\\xff"}
var delimPool = []string{",", ";", "|", "  ", ",;", "\\xfe", "\\xff", "\\xfe\\xff"}
var optPools = map[string]map[string][]string{
	"query":  {"-d": delimPool, "-t": sepPool, "-n": {"gene", "product", "note", "locus_tag", "translation", "db_xref"}},
	"search": {"-k": keys, "-q": quals},
	"select": {"-s": {"both", "forward", "reverse", "sideways"}},
	"define": {"-q": quals},
}
var switchPools = map[string][]string{
	"delete": {"-e"}, "extract": {"-v"}, "infix": {"-e"}, "insert": {"-e"}, "join": {"-c"}, "pick": {"-f"}, "sort": {"-r"},
	"query": {"-H", "--source", "-I", "-K", "-L", "--empty"}, "search": {"-e", "--no-complement"}, "select": {"-v"}, "summary": {"-F", "-Q"},
}

type cmdGen func(r *core.RNG, iv *invocation)

func sw(r *core.RNG, iv *invocation, num, den int, flag string) {
	if r.Chance(num, den) {
		iv.Opts = append(iv.Opts, []string{flag})
	}
}

func pickS(r *core.RNG, ss []string) string { return ss[r.Intn(len(ss))] }

var cachedCommands = []string{"annotate", "clear", "complement", "define", "delete", "extract", "infix", "insert", "join", "pick",
	"query", "repair", "reverse", "rotate", "search", "select", "sort", "split", "summary"}

var cmdGens = map[string]cmdGen{
	"annotate": func(r *core.RNG, iv *invocation) {
		iv.Pos = []string{pickS(r, []string{"/u/feat.tbl", "/u/feat.tbl", "/u/feat2.tbl"})}
	},
	"clear":      func(r *core.RNG, iv *invocation) {},
	"complement": func(r *core.RNG, iv *invocation) {},
	"define": func(r *core.RNG, iv *invocation) {
		iv.Pos = []string{pickS(r, keys), pickS(r, locations)}
		if r.Chance(1, 2) {
			o := []string{"-q"}
			n := r.Range(1, 2)
			for i := 0; i < n; i++ {
				o = append(o, pickS(r, quals))
			}
			iv.Opts = append(iv.Opts, o)
		}
	},
	"delete": func(r *core.RNG, iv *invocation) { iv.Pos = []string{pickS(r, locators)}; sw(r, iv, 1, 2, "-e") },
	"extract": func(r *core.RNG, iv *invocation) {
		n := r.Intn(3)
		for i := 0; i < n; i++ {
			iv.Pos = append(iv.Pos, pickS(r, locators))
		}
		sw(r, iv, 1, 2, "-v")
	},
	"infix": func(r *core.RNG, iv *invocation) {
		iv.Pos = []string{pickS(r, locators), pickS(r, []string{"/u/part.gb", "/u/pbat.gb", "/u/two.gb", "/u/part.fasta"})}
		sw(r, iv, 1, 2, "-e")
	},
	"insert": func(r *core.RNG, iv *invocation) {
		iv.Pos = []string{pickS(r, locators), pickS(r, guestPool)}
		sw(r, iv, 1, 2, "-e")
	},
	"join": func(r *core.RNG, iv *invocation) { sw(r, iv, 1, 2, "-c") },
	"pick": func(r *core.RNG, iv *invocation) { iv.Pos = []string{pickS(r, pickLists)}; sw(r, iv, 1, 2, "-f") },
	"query": func(r *core.RNG, iv *invocation) {
		if r.Chance(1, 2) {
			o := []string{"-n"}
			n := r.Range(1, 2)
			for i := 0; i < n; i++ {
				o = append(o, pickS(r, []string{"gene", "product", "note", "locus_tag", "translation", "db_xref", "note"}))
			}
			iv.Opts = append(iv.Opts, o)
		}
		if r.Chance(1, 3) {
			iv.Opts = append(iv.Opts, []string{"-d", pickS(r, delimPool)})
		}
		if r.Chance(1, 3) {
			iv.Opts = append(iv.Opts, []string{"-t", pickS(r, sepPool)})
		}
		sw(r, iv, 1, 3, "-H")
		sw(r, iv, 1, 3, "--source")
		sw(r, iv, 1, 3, "-I")
		sw(r, iv, 1, 3, "-K")
		sw(r, iv, 1, 3, "-L")
		sw(r, iv, 1, 3, "--empty")
	},
	"repair":  func(r *core.RNG, iv *invocation) {},
	"reverse": func(r *core.RNG, iv *invocation) {},
	"rotate":  func(r *core.RNG, iv *invocation) { iv.Pos = []string{pickS(r, locators)} },
	"search": func(r *core.RNG, iv *invocation) {
		iv.Pos = []string{pickS(r, queries)}
		if r.Chance(1, 3) {
			iv.Opts = append(iv.Opts, []string{"-k", pickS(r, keys)})
		}
		if r.Chance(1, 3) {
			o := []string{"-q", pickS(r, quals)}
			if r.Chance(1, 2) {
				o = append(o, pickS(r, quals))
			}
			iv.Opts = append(iv.Opts, o)
		}
		sw(r, iv, 1, 3, "-e")
		sw(r, iv, 1, 3, "--no-complement")
	},
	"select": func(r *core.RNG, iv *invocation) {
		n := r.Intn(3)
		for i := 0; i < n; i++ {
			iv.Pos = append(iv.Pos, pickS(r, selectors))
		}
		if r.Chance(1, 2) {
			iv.Opts = append(iv.Opts, []string{"-s", pickS(r, []string{"both", "forward", "reverse", "sideways"})})
		}
		sw(r, iv, 1, 2, "-v")
	},
	"sort":  func(r *core.RNG, iv *invocation) { sw(r, iv, 1, 2, "-r") },
	"split": func(r *core.RNG, iv *invocation) { iv.Pos = []string{pickS(r, locators)} },
	"summary": func(r *core.RNG, iv *invocation) {
		sw(r, iv, 1, 3, "-F")
		sw(r, iv, 1, 3, "-Q")
	},
}

// table output commands have no -F format option
var tableOut = map[string]bool{"query": true, "summary": true}

func genInvocation(r *core.RNG, cmd string) invocation {
	if cmd == "" {
		cmd = cachedCommands[r.Intn(len(cachedCommands))]
		if r.Chance(1, 6) {
			// commands that read a second file get extra turns: their keys have more to get wrong
			cmd = pickS(r, []string{"insert", "infix", "search", "annotate"})
		}
	}
	iv := invocation{Cmd: cmd}
	cmdGens[cmd](r, &iv)
	iv.Input = primaryInputs[r.Intn(len(primaryInputs))]
	iv.Piped = r.Chance(3, 5)
	if iv.Piped && r.Chance(1, 7) {
		iv.Redirect = true
		switch r.Intn(4) {
		case 0, 1:
			iv.Input = pickS(r, []string{"/u/pre.gb", "/u/pre.fasta"})
		case 2:
			// a file of several records, the first ones already consumed
			iv.Input = pickS(r, []string{"/u/two.gb", "/u/three.gb", "/u/two.fasta", "/u/big.gb", "/u/sizes.fasta"})
			iv.Skip = r.Intn(2)
		}
	}
	if !iv.Piped && r.Chance(1, 8) {
		iv.Fifo = true
	}
	if r.Chance(1, 14) {
		iv.FifoSec = true
	}
	if !tableOut[cmd] && r.Chance(1, 3) {
		iv.Fmt = pickS(r, formats)
	}
	switch r.Intn(6) {
	case 0:
		iv.Out = "/u/out.gb"
	case 1:
		iv.Out = pickS(r, outNames)
	}
	return iv
}

var optDefaults = map[string]string{"-t": ",", "-d": "\t", "-s": "both", "-k": "misc_feature"}

// neighbourOf prefers a value that shares its first byte with cur (a key that
// is derived from part of a value cannot tell such neighbours apart).
func neighbourOf(r *core.RNG, pool []string, cur string) string {
	if cur != "" && r.Chance(1, 5) {
		// the value with one byte changed: a byte that is not UTF-8 into
		// another one that is not, or the last letter into the next
		if i := strings.LastIndex(cur, "\\x"); i >= 0 && i+4 <= len(cur) {
			if v, err := strconv.ParseUint(cur[i+2:i+4], 16, 8); err == nil {
				nv := 0x80 + (int(v)-0x80+1+r.Intn(3))%0x40 // stays a continuation byte out of place, or a bare lead byte
				if v >= 0xc0 {
					nv = 0xc0 + (int(v)-0xc0+1+r.Intn(3))%0x40
				}
				return cur[:i] + fmt.Sprintf("\\x%02x", nv) + cur[i+4:]
			}
		} else if c := cur[len(cur)-1]; c >= 'a' && c < 'z' || c >= 'A' && c < 'Z' || c >= '0' && c < '9' {
			return cur[:len(cur)-1] + string(c+1)
		}
	}
	if cur != "" && (r.Chance(1, 4) || numList.MatchString(cur) && r.Chance(1, 3)) {
		if a := aliasOf(r, cur); a != "" && a != cur {
			return a
		}
	}
	if cur != "" && r.Chance(1, 2) {
		var nb []string
		for _, v := range pool {
			if v != cur && v[0] == cur[0] {
				nb = append(nb, v)
			}
		}
		if len(nb) > 0 {
			return pickS(r, nb)
		}
	}
	return pickS(r, pool)
}

// aliasOf returns another argument that a key encoding could confuse with
// cur: the text a byte string is commonly written as (base64, hex, Go / JSON
// escapes, invalid bytes replaced by U+FFFD), or the bytes such a text stands
// for. It knows nothing of how gts encodes its keys today.
func aliasOf(r *core.RNG, cur string) string {
	raw := []byte(rawArgv([]string{cur})[0])
	esc := func(b []byte) string {
		var sb strings.Builder
		for _, c := range b {
			if c >= 0x80 || c < 0x20 {
				fmt.Fprintf(&sb, "\\x%02x", c)
			} else {
				sb.WriteByte(c)
			}
		}
		return sb.String()
	}
	if strings.Contains(cur, "\\x") {
		switch r.Intn(6) {
		case 0:
			return base64.StdEncoding.EncodeToString(raw)
		case 1:
			return base64.URLEncoding.EncodeToString(raw)
		case 2:
			return hex.EncodeToString(raw)
		case 3:
			q := strconv.Quote(string(raw))
			return q[1 : len(q)-1]
		case 4:
			j, _ := json.Marshal(string(raw))
			return esc(j[1 : len(j)-1])
		default:
			return esc([]byte(strings.ToValidUTF8(string(raw), "\uFFFD")))
		}
	}
	if numList.MatchString(cur) && r.Chance(2, 3) {
		// another spelling of a list of numbers and ranges: what a key
		// takes for the same list and the command for another one, or the
		// other way round
		switch r.Intn(6) {
		case 0:
			if strings.HasSuffix(cur, "-") {
				return cur + "0"
			}
			return cur + ",0"
		case 1:
			if strings.HasPrefix(cur, "-") {
				return "0" + cur
			}
			return "0" + cur
		case 2:
			if i := strings.IndexByte(cur, ','); i > 0 {
				return cur[i+1:] + "," + cur[:i]
			}
			return cur + "," + cur
		case 3:
			return "+" + cur
		case 4:
			if i := strings.IndexByte(cur, '-'); i > 0 && i+1 < len(cur) {
				return cur[i+1:] + "-" + cur[:i]
			}
			return cur + "-" + cur
		default:
			return cur + "-"
		}
	}
	switch r.Intn(3) {
	case 0:
		if b, err := base64.StdEncoding.DecodeString(cur); err == nil && len(b) > 0 {
			return esc(b)
		}
	case 1:
		return base64.StdEncoding.EncodeToString(raw)
	}
	j, _ := json.Marshal(cur)
	return string(j)
}

var numList = regexp.MustCompile(`^[0-9][0-9,\-]*$|^-[0-9][0-9,\-]*$`)

// outNames are output names whose extension a command may derive something
// from (the sequence format today; a delimiter, a layout tomorrow): what is
// derived from the name must be in the cache key like what is given by option.
var outNames = []string{"/u/out.fasta", "/u/out.txt", "/u/nodir/out.gb", "/u/out.csv", "/u/out.tsv", "/u/out.fa", "/u/out.genbank",
	"/u/out.gbk", "/u/out.tab", "/u/out.json", "/u/out.gff", "/u/out", "/u/out.CSV", "/u/NC_001422.1.fasta", "/u/out.embl", "/u/out.fastq", "/u/out.emb"}

// litFile names the stock file whose whole content is the literal argument
// (@...) itself.
func litFile(lit string) string { return "/u/lit/" + strings.TrimPrefix(lit, "@") }

func init() {
	for _, pool := range [][]string{guestPool, queries} {
		for _, v := range pool {
			if strings.HasPrefix(v, "@") {
				stockFiles[litFile(v)] = fileSpec{Text: v}
			}
		}
	}
}

// mutateOne changes exactly one argument of an invocation, choosing uniformly
// among the kinds of change the command allows.
func mutateOne(r *core.RNG, a invocation) (invocation, string) {
	for try := 0; try < 30; try++ {
		v := a.clone()
		var kinds []string
		if len(posPools[a.Cmd]) > 0 && len(v.Pos) == len(posPools[a.Cmd]) {
			kinds = append(kinds, "pos", "pos")
		}
		if len(optPools[a.Cmd]) > 0 {
			kinds = append(kinds, "optval", "addopt")
		}
		if len(switchPools[a.Cmd]) > 0 {
			kinds = append(kinds, "switch")
		}
		if !tableOut[a.Cmd] {
			kinds = append(kinds, "format")
		}
		kinds = append(kinds, "output")
		if (a.Cmd == "extract" || a.Cmd == "select") && len(v.Pos) > 0 {
			kinds = append(kinds, "extra")
		}
		for _, o := range v.Opts {
			if len(o) > 2 {
				kinds = append(kinds, "permute", "merge")
				break
			}
		}
		if (a.Cmd == "extract" || a.Cmd == "select") && len(v.Pos) > 1 {
			kinds = append(kinds, "permute-pos")
		}
		switch pickS(r, kinds) {
		case "pos":
			pools := posPools[a.Cmd]
			i := r.Intn(len(pools))
			nv := neighbourOf(r, pools[i], v.Pos[i])
			if _, isLit := stockFiles[litFile(v.Pos[i])]; isLit && strings.HasPrefix(v.Pos[i], "@") && r.Chance(1, 3) {
				// the same bytes, once as a literal argument and once as the
				// whole content of a file given in its place
				nv = litFile(v.Pos[i])
			}
			if nv != v.Pos[i] {
				v.Pos[i] = nv
				return v, "one-positional"
			}
		case "extra":
			pool := locators
			if a.Cmd == "select" {
				pool = selectors
			}
			i := r.Intn(len(v.Pos))
			nv := neighbourOf(r, pool, v.Pos[i])
			if nv != v.Pos[i] {
				v.Pos[i] = nv
				return v, "one-positional"
			}
		case "permute": // the same values of a repeatable option in another order
			for i, o := range v.Opts {
				if len(o) > 2 && o[1] != o[len(o)-1] {
					v.Opts[i][1], v.Opts[i][len(o)-1] = o[len(o)-1], o[1]
					return v, "permute-option-values"
				}
			}
		case "merge": // two values of a repeatable option become one value holding a separator
			for i, o := range v.Opts {
				if len(o) > 2 {
					joined := o[1] + pickS(r, []string{",", ";", " ", "|", ":"}) + o[2]
					v.Opts[i] = append([]string{o[0], joined}, o[3:]...)
					return v, "merge-option-values"
				}
			}
		case "permute-pos":
			if v.Pos[0] != v.Pos[len(v.Pos)-1] {
				v.Pos[0], v.Pos[len(v.Pos)-1] = v.Pos[len(v.Pos)-1], v.Pos[0]
				return v, "permute-positionals"
			}
		case "optval":
			for i, o := range v.Opts {
				if pool, ok := optPools[a.Cmd][o[0]]; ok && len(o) > 1 {
					j := 1 + r.Intn(len(o)-1)
					nv := neighbourOf(r, pool, o[j])
					if nv != o[j] {
						v.Opts[i][j] = nv
						return v, "one-option-value"
					}
				}
			}
		case "addopt":
			var flags []string
			for f := range optPools[a.Cmd] {
				have := false
				for _, o := range v.Opts {
					if o[0] == f {
						have = true
					}
				}
				if !have {
					flags = append(flags, f)
				}
			}
			if len(flags) > 0 {
				sortStrings(flags)
				f := pickS(r, flags)
				v.Opts = append(v.Opts, []string{f, neighbourOf(r, optPools[a.Cmd][f], optDefaults[f])})
				return v, "add-option"
			}
		case "switch":
			f := pickS(r, switchPools[a.Cmd])
			for i, o := range v.Opts {
				if len(o) == 1 && o[0] == f {
					v.Opts = append(v.Opts[:i], v.Opts[i+1:]...)
					return v, "switch-off"
				}
			}
			v.Opts = append(v.Opts, []string{f})
			return v, "switch-on"
		case "format":
			f := pickS(r, append(formats, ""))
			if f != a.Fmt {
				v.Fmt = f
				return v, "format"
			}
		case "output":
			o := pickS(r, append([]string{"", "", "/u/out.gb", "/u/out.fasta", "/u/out2.gb"}, outNames...))
			if o != a.Out {
				v.Out = o
				return v, "output"
			}
		}
	}
	return a, "same"
}

func sortStrings(s []string) {
	for i := 1; i < len(s); i++ {
		for j := i; j > 0 && s[j] < s[j-1]; j-- {
			s[j], s[j-1] = s[j-1], s[j]
		}
	}
}

var goodInputs = []string{"/u/multi.gb", "/u/multi.gb", "/u/part.gb", "/u/pbat.gb", "/u/two.gb", "/u/three.gb", "/u/ecoli.gb", "/u/phix.gb", "/u/part.fasta", "/u/two.fasta", "/u/part.gb", "/u/pbat.gb"}

type optTarget struct {
	cmd, kind, flag string
}

var optTargets []optTarget

func buildOptTargets() {
	if optTargets != nil {
		return
	}
	for _, c := range cachedCommands {
		for _, f := range switchPools[c] {
			optTargets = append(optTargets, optTarget{c, "switch", f})
		}
		var flags []string
		for f := range optPools[c] {
			flags = append(flags, f)
		}
		sortStrings(flags)
		for _, f := range flags {
			optTargets = append(optTargets, optTarget{c, "value", f}, optTarget{c, "present", f})
			if f == "-q" || f == "-n" {
				// repeatable options: the same values in another order, two values fused into one
				optTargets = append(optTargets, optTarget{c, "permute", f}, optTarget{c, "merge", f})
			}
		}
		for i := range posPools[c] {
			optTargets = append(optTargets, optTarget{c, "pos", fmt.Sprint(i)})
		}
		if c == "extract" || c == "select" {
			optTargets = append(optTargets, optTarget{c, "permute-pos", ""}, optTarget{c, "extra-pos", ""})
		}
		if !tableOut[c] {
			optTargets = append(optTargets, optTarget{c, "format", ""})
		}
		// the output name: stdout, or names with different extensions
		optTargets = append(optTargets, optTarget{c, "output", ""})
	}
}

// inputsFor prefers inputs on which an option can make a difference.
func inputsFor(cmd string) []string {
	switch cmd {
	case "query", "summary", "select", "search":
		return []string{"/u/multi.gb", "/u/multi.gb", "/u/phix.gb", "/u/two.gb", "/u/part.gb"}
	case "sort", "join", "pick":
		return []string{"/u/three.gb", "/u/two.gb", "/u/three.gb", "/u/two.fasta"}
	}
	return goodInputs
}

// genOptionPair builds [A, A'] (sometimes [A, A', A]) where A' differs from A
// in exactly the targeted option.
func genOptionPair(r *core.RNG, sc *cliScenario) *cliScenario {
	buildOptTargets()
	if len(optTargets) == 0 {
		return nil
	}
	t := optTargets[r.Intn(len(optTargets))]
	a := genInvocation(r, t.cmd)
	a.Input = pickS(r, inputsFor(t.cmd))
	a.Redirect = false
	if t.cmd == "query" && r.Chance(1, 2) {
		// report qualifiers that occur more than once, so that the separator shows
		has := false
		for _, o := range a.Opts {
			if o[0] == "-n" {
				has = true
			}
		}
		if !has {
			a.Opts = append(a.Opts, []string{"-n", pickS(r, []string{"note", "db_xref"})})
		}
	}
	b := a.clone()
	find := func(iv *invocation) int {
		for i, o := range iv.Opts {
			if o[0] == t.flag {
				return i
			}
		}
		return -1
	}
	switch t.kind {
	case "switch":
		if i := find(&b); i >= 0 {
			b.Opts = append(b.Opts[:i], b.Opts[i+1:]...)
		} else {
			b.Opts = append(b.Opts, []string{t.flag})
		}
	case "present":
		if i := find(&b); i >= 0 {
			b.Opts = append(b.Opts[:i], b.Opts[i+1:]...)
		} else {
			b.Opts = append(b.Opts, []string{t.flag, neighbourOf(r, optPools[t.cmd][t.flag], optDefaults[t.flag])})
		}
	case "permute", "merge":
		pool := optPools[t.cmd][t.flag]
		v1, v2 := pickS(r, pool), pickS(r, pool)
		for try := 0; v2 == v1 && try < 10; try++ {
			v2 = pickS(r, pool)
		}
		if i := find(&a); i >= 0 {
			a.Opts[i] = []string{t.flag, v1, v2}
		} else {
			a.Opts = append(a.Opts, []string{t.flag, v1, v2})
		}
		b = a.clone()
		i := find(&b)
		if t.kind == "permute" {
			b.Opts[i] = []string{t.flag, v2, v1}
		} else {
			b.Opts[i] = []string{t.flag, v1 + pickS(r, []string{",", ";", " ", "|", ":"}) + v2}
		}
	case "pos":
		var idx int
		fmt.Sscan(t.flag, &idx)
		pools := posPools[t.cmd]
		if len(b.Pos) == len(pools) {
			for try := 0; try < 10; try++ {
				nv := neighbourOf(r, pools[idx], b.Pos[idx])
				if nv != b.Pos[idx] {
					b.Pos[idx] = nv
					break
				}
			}
		}
	case "permute-pos", "extra-pos":
		pool := locators
		if t.cmd == "select" {
			pool = selectors
		}
		p1, p2 := pickS(r, pool[:len(pool)-1]), pickS(r, pool[:len(pool)-1])
		for try := 0; p2 == p1 && try < 10; try++ {
			p2 = pickS(r, pool[:len(pool)-1])
		}
		a.Pos = []string{p1, p2}
		b = a.clone()
		if t.kind == "permute-pos" {
			b.Pos = []string{p2, p1}
		} else {
			b.Pos = []string{p1}
		}
	case "format":
		b.Fmt = pickS(r, append(formats, ""))
		for try := 0; b.Fmt == a.Fmt && try < 10; try++ {
			b.Fmt = pickS(r, append(formats, ""))
		}
	case "output":
		// the same invocation, once to one output name and once to another
		// (or to stdout): whatever a command derives from the name it writes
		// to is part of what it computes
		pool := append([]string{"", "/u/out.gb"}, outNames...)
		a.Out = pickS(r, pool)
		if r.Chance(1, 2) {
			a.Fmt = "" // nothing overrides what the name says
		}
		b = a.clone()
		for try := 0; b.Out == a.Out && try < 10; try++ {
			b.Out = pickS(r, pool)
		}
	case "value":
		pool := optPools[t.cmd][t.flag]
		if i := find(&a); i < 0 {
			a.Opts = append(a.Opts, []string{t.flag, pickS(r, pool)})
			b = a.clone()
		}
		i := find(&b)
		for try := 0; try < 10; try++ {
			nv := neighbourOf(r, pool, b.Opts[i][1])
			if nv != b.Opts[i][1] {
				b.Opts[i][1] = nv
				break
			}
		}
	}
	if r.Chance(1, 2) {
		a, b = b, a
	}
	for _, st := range []*runStep{a.step(r), b.step(r)} {
		addFiles(sc, st)
		sc.Steps = append(sc.Steps, cliStep{Run: st})
	}
	if r.Chance(1, 3) {
		st := a.step(r)
		sc.Steps = append(sc.Steps, cliStep{Run: st})
	}
	return sc
}

// mutate returns a variant of the anchor that differs in exactly one aspect.
func mutateInvocation(r *core.RNG, a invocation) (invocation, string) {
	for try := 0; try < 20; try++ {
		v := a.clone()
		if a.Redirect && a.Skip+1 > 0 && r.Chance(1, 3) {
			// the same command on the same descriptor, from another record on
			if f, ok := stockFiles[a.Input]; ok && f.Prefix == "" && recordStart(f.bytes(), 1) > 0 {
				v.Skip = 1 - a.Skip
				if v.Skip < 0 {
					v.Skip = 0
				}
				return v, "stdin-offset"
			}
		}
		switch r.Intn(12) {
		case 8: // exactly one positional argument changes
			if pools := posPools[a.Cmd]; len(pools) > 0 && len(v.Pos) == len(pools) {
				i := r.Intn(len(pools))
				nv := pickS(r, pools[i])
				if nv != v.Pos[i] {
					v.Pos[i] = nv
					return v, "one-positional"
				}
			}
		case 9: // exactly one option value changes
			for i, o := range v.Opts {
				if pool, ok := optPools[a.Cmd][o[0]]; ok && len(o) > 1 && r.Chance(1, 2) {
					j := 1 + r.Intn(len(o)-1)
					nv := neighbourOf(r, pool, o[j])
					if nv != o[j] {
						v.Opts[i][j] = nv
						return v, "one-option-value"
					}
				}
			}
		case 10, 11: // exactly one switch is toggled
			if sws := switchPools[a.Cmd]; len(sws) > 0 {
				f := pickS(r, sws)
				for i, o := range v.Opts {
					if len(o) == 1 && o[0] == f {
						v.Opts = append(v.Opts[:i], v.Opts[i+1:]...)
						return v, "switch-off"
					}
				}
				v.Opts = append(v.Opts, []string{f})
				return v, "switch-on"
			}
		case 0, 1: // regenerate options and positionals of the same command
			n := genInvocation(r, a.Cmd)
			v.Opts, v.Pos = n.Opts, n.Pos
			if strings.Join(v.argv(), " ") != strings.Join(a.argv(), " ") {
				return v, "options"
			}
		case 2: // drop one option
			if len(v.Opts) > 0 {
				i := r.Intn(len(v.Opts))
				v.Opts = append(v.Opts[:i], v.Opts[i+1:]...)
				return v, "drop-option"
			}
		case 3: // format
			if !tableOut[a.Cmd] {
				f := pickS(r, append(formats, ""))
				if f != a.Fmt {
					v.Fmt = f
					return v, "format"
				}
			}
		case 4: // output target
			o := pickS(r, append([]string{"", "", "/u/out.gb", "/u/out.fasta", "/u/out2.gb"}, outNames...))
			if o != a.Out {
				v.Out = o
				return v, "output"
			}
		case 5: // pipe vs path
			v.Piped = !a.Piped
			return v, "stdin-mode"
		case 6: // another input
			in := primaryInputs[r.Intn(len(primaryInputs))]
			if in != a.Input {
				v.Input = in
				return v, "input"
			}
		case 7: // another command on the same input
			n := genInvocation(r, "")
			n.Input, n.Piped = a.Input, a.Piped
			return n, "command"
		}
	}
	return a, "same"
}

// secondaryOf returns the user file an invocation reads besides its input.
func secondaryOf(iv invocation) string {
	for _, p := range iv.Pos {
		if strings.HasPrefix(p, "/u/") {
			return p
		}
	}
	return ""
}

func inputEdit(r *core.RNG, file string) editSpec {
	if strings.HasSuffix(file, ".tbl") {
		return editSpec{Op: "replace", Old: "simulator", Text: "user"}
	}
	if strings.HasSuffix(file, ".gb") && r.Chance(1, 3) {
		// annotation only: residues, lengths and record boundaries stay as they are
		return []editSpec{
			{Op: "replace", Old: "/product=\"", Text: "/product=\"edited "},
			{Op: "replace", Old: "     CDS  ", Text: "     gene "},
			{Op: "replace", Old: "/gene=\"", Text: "/gene=\"x"},
			{Op: "replace", Old: "DEFINITION  ", Text: "DEFINITION  edited "},
		}[r.Intn(4)]
	}
	if strings.HasSuffix(file, ".fasta") && r.Chance(1, 3) {
		// the same residues split differently into records
		if r.Chance(1, 2) {
			return editSpec{Op: "resplit"}
		}
		return editSpec{Op: "replace", At: 60, Old: "\n", Text: "\n>split here\n"}
	}
	switch r.Intn(9) {
	case 7: // annotation only: a qualifier value changes, residues and record boundaries do not
		return editSpec{Op: "replace", Old: "/product=\"", Text: "/product=\"edited "}
	case 8: // annotation only: a feature key changes
		return editSpec{Op: "replace", Old: "     CDS  ", Text: "     gene "}
	case 4, 5, 6: // change one residue in the last lines of the file, length unchanged
		return editSpec{Op: "mutate-tail", At: r.Intn(200)}
	case 0: // change one residue near the start
		return editSpec{Op: "replace", At: 0, Old: "acgt", Text: "acga"}
	case 1:
		return editSpec{Op: "replace", Old: "ACGT", Text: "ACGA"}
	case 2: // change an annotation
		return editSpec{Op: "replace", Old: "gene", Text: "gen3"}
	}
	return editSpec{Op: "append", Text: "\n"}
}

func addFiles(sc *cliScenario, steps ...*runStep) {
	for _, s := range steps {
		for _, a := range append([]string{s.Stdin}, s.Argv...) {
			if strings.HasPrefix(a, cliFifo+"/") {
				a = "/u" + strings.TrimPrefix(a, cliFifo) // the file a named pipe delivers
			}
			if f, ok := stockFiles[a]; ok {
				if _, have := sc.Files[a]; !have {
					sc.Files[a] = f
				}
			}
		}
	}
}

// genHistory builds a fault-free history around one anchor invocation.
func genHistory(r *core.RNG, tier string) *cliScenario {
	sc := &cliScenario{Mode: "c14-strict", Env: cliEnv{Cache: "ok", Tmp: "ok"}, Files: map[string]fileSpec{}}
	switch r.Intn(16) {
	case 0:
		sc.Env.Cache = "none"
	case 1:
		sc.Env.Cache = "unwritable"
	case 2:
		sc.Env.Cache = "readonly"
	case 3:
		sc.Env.Tmp = "missing"
	case 4:
		// the cache directory on a file system with little or no room left
		sc.Env.Cache, sc.Env.CacheRoom = "full", []int{0, 1, 59, 60, 61, 300, 3000, 20000}[r.Intn(8)]
	case 5:
		// the temp directory, where standard input is spooled, likewise
		sc.Env.Tmp, sc.Env.TmpRoom = "full", []int{0, 1, 100, 4096, 5000, 30000}[r.Intn(6)]
	}
	maxLen := 4
	if tier == "thorough" {
		maxLen = 6
	}
	n := r.Range(1, maxLen)
	anchor := genInvocation(r, "")
	if tier == "thorough" && r.Chance(1, 600) {
		// an output of more than 10 MB: limits tied to a size show only here
		anchor = invocation{Cmd: pickS(r, []string{"reverse", "complement", "clear"}), Input: "/u/huge.fasta", Piped: r.Chance(1, 2)}
		sc.Env = cliEnv{Cache: "ok", Tmp: "ok"}
		sc.Steps = nil
		st := anchor.step(r)
		st.Chunks = nil
		addFiles(sc, st)
		sc.Steps = append(sc.Steps, cliStep{Run: st}, cliStep{Run: st})
		return sc
	}
	cur := anchor
	add := func(rs *runStep) {
		addFiles(sc, rs)
		sc.Steps = append(sc.Steps, cliStep{Run: rs})
	}
	if r.Chance(1, 250) || (tier == "thorough" && r.Chance(1, 600)) {
		// an input above a MiB (thorough: above 10 MB) that changes by one residue near its end, same length
		in := "/u/mb.fasta"
		if tier == "thorough" && r.Chance(1, 3) {
			in = "/u/huge.fasta"
		}
		big := invocation{Cmd: pickS(r, []string{"reverse", "complement", "clear", "sort"}), Input: in, Piped: r.Chance(1, 2)}
		sc.Env = cliEnv{Cache: "ok", Tmp: "ok"}
		sc.Steps = nil
		st := big.step(r)
		st.Chunks = nil
		addFiles(sc, st)
		sc.Steps = append(sc.Steps, cliStep{Run: st}, cliStep{Edit: &editStep{File: in, Edit: editSpec{Op: "mutate-tail", At: r.Intn(300)}}}, cliStep{Run: st})
		return sc
	}
	if r.Chance(1, 3) {
		// option coverage: one (subcommand, option) pair drawn uniformly from all
		// of them - so that a command with ten options gets ten times the turns
		// of a command with one - and a history that differs in exactly that option
		if h := genOptionPair(r, sc); h != nil {
			return h
		}
	}
	if r.Chance(9, 20) {
		// pair shape: a run that succeeds, then the same run with exactly one argument changed
		anchor.Input = pickS(r, goodInputs)
		add(anchor.step(r))
		if sec := secondaryOf(anchor); r.Chance(1, 6) || (sec != "" && r.Chance(1, 3)) {
			// the same run after the user changed one file: the primary input, or the guest / host / query / table
			f := anchor.Input
			if sec != "" && r.Chance(2, 3) {
				f = sec
			}
			sc.Steps = append(sc.Steps, cliStep{Edit: &editStep{File: f, Edit: inputEdit(r, f)}})
			add(anchor.step(r))
			return sc
		}
		v, _ := mutateOne(r, anchor)
		add(v.step(r))
		switch r.Intn(4) {
		case 0:
			add(anchor.step(r))
		case 1:
			w, _ := mutateOne(r, v)
			add(w.step(r))
		}
		return sc
	}
	add(anchor.step(r))
	for len(sc.Steps) < n+countNonRun(sc) {
		switch r.Pick([]int{30, 30, 8, 6, 4, 6, 4}) {
		case 0: // identical repeat of the anchor
			add(anchor.step(r))
		case 1: // a one-aspect variant of the anchor, sometimes promoted to be the new anchor
			v, _ := mutateInvocation(r, cur)
			add(v.step(r))
			if r.Chance(1, 3) {
				cur = v
			}
		case 2: // the user edits the primary input, then repeats
			sc.Steps = append(sc.Steps, cliStep{Edit: &editStep{File: anchor.Input, Edit: inputEdit(r, anchor.Input)}})
			add(anchor.step(r))
		case 3: // the user edits the secondary input, then repeats
			if s := secondaryOf(anchor); s != "" {
				sc.Steps = append(sc.Steps, cliStep{Edit: &editStep{File: s, Edit: inputEdit(r, s)}})
			}
			add(anchor.step(r))
		case 4:
			add(&runStep{Argv: []string{"cache", "purge"}})
		case 5: // unrelated invocation
			add(genInvocation(r, "").step(r))
		case 6: // repeat of whatever ran last
			add(cur.step(r))
		}
	}
	return sc
}

func countNonRun(sc *cliScenario) int {
	n := 0
	for _, s := range sc.Steps {
		if s.Run == nil {
			n++
		}
	}
	return n
}

// addFaults turns a fault-free history into a faulted one, aiming by the
// traces of the fault-free execution.
func addFaults(r *core.RNG, sc *cliScenario, x *cliExec) *cliScenario {
	c := sc.clone()
	c.Mode = "c14-fault"
	var runs []int
	for i, s := range c.Steps {
		if s.Run != nil && len(s.Run.Argv) > 0 && s.Run.Argv[0] != "cache" {
			runs = append(runs, i)
		}
	}
	if len(runs) == 0 {
		return nil
	}
	// the faulted step is never the last one when it can be helped: the verdict is on what follows
	pickStep := func() int {
		if len(runs) > 1 && r.Chance(4, 5) {
			return runs[r.Intn(len(runs)-1)]
		}
		return runs[r.Intn(len(runs))]
	}
	traceOf := func(step int) []simos.OpRec {
		for _, s := range x.steps {
			if s.idx == step && !s.nested {
				return s.trace
			}
		}
		return nil
	}
	stdinFailed := false
	var outside [][2]interface{} // (step, file) pairs: the file is put back after the step
	nf := r.Range(1, 2)
	for k := 0; k < nf; k++ {
		si := pickStep()
		rs := c.Steps[si].Run
		tr := traceOf(si)
		if rs.Stdin != "" && !rs.StdinFile && r.Chance(1, 12) {
			// the producer behind the stdin pipe dies: a read error part-way
			if d, ok := c.Files[rs.Stdin]; ok {
				if n := len(d.bytes()); n > 1 {
					rs.StdinFail = 1 + r.Intn(n-1)
					stdinFailed = true
					continue
				}
			}
		}
		switch r.Pick([]int{36, 22, 30, 12, 16}) {
		case 4: // another gts runs while this one is held at one of its operations
			if len(tr) == 0 {
				continue
			}
			// the same invocation (two shells, a script started twice), one
			// of the history's other invocations, or a purge
			inner := &runStep{Argv: append([]string(nil), rs.Argv...), Stdin: rs.Stdin, Chunks: rs.Chunks, StdinFile: rs.StdinFile, StdinOffset: rs.StdinOffset}
			switch r.Intn(6) {
			case 0, 1:
				o := c.Steps[runs[r.Intn(len(runs))]].Run
				inner = &runStep{Argv: append([]string(nil), o.Argv...), Stdin: o.Stdin, Chunks: o.Chunks, StdinFile: o.StdinFile, StdinOffset: o.StdinOffset}
			case 2:
				inner = &runStep{Argv: []string{"cache", "purge"}}
			}
			// the inner one writes to its standard output only: the user
			// files the outer one is judged on stay as they are
			writesFile := false
			for _, a := range inner.Argv {
				if a == "-o" || strings.HasPrefix(a, "--output") || strings.HasPrefix(a, "-o") && len(a) > 2 {
					writesFile = true
				}
			}
			if writesFile {
				continue
			}
			at := r.Intn(len(tr))
			if r.Chance(3, 4) {
				var cand []int
				for i, o := range tr {
					if o.Class == "cache" {
						cand = append(cand, i)
					}
				}
				if len(cand) > 0 {
					at = cand[r.Intn(len(cand))]
				}
			}
			rsWrites := false
			for _, a := range rs.Argv {
				if a == "-o" || strings.HasPrefix(a, "--output") || strings.HasPrefix(a, "-o") && len(a) > 2 {
					rsWrites = true
				}
			}
			if r.Chance(1, 6) && len(tr) > 4 && !rsWrites {
				// and a third one inside the second
				in2 := &runStep{Argv: append([]string(nil), rs.Argv...), Stdin: rs.Stdin, Chunks: rs.Chunks, StdinFile: rs.StdinFile, StdinOffset: rs.StdinOffset}
				a2, _ := json.Marshal(outsideEvent{Nested: in2})
				inner.Faults = append(inner.Faults, simos.Fault{AtOp: r.Intn(len(tr)), Kind: "overlap", Arg: string(a2)})
			}
			arg, _ := json.Marshal(outsideEvent{Nested: inner})
			rs.Faults = append(rs.Faults, simos.Fault{AtOp: at, Kind: "overlap", Arg: string(arg)})
		case 3: // another program rewrites an input file while gts is reading it
			var files []string
			for _, a := range rs.Argv {
				if strings.HasPrefix(a, "/u/") && !strings.HasPrefix(a, "/u/out") {
					if _, ok := c.Files[a]; ok {
						files = append(files, a)
					}
				}
			}
			if len(files) == 0 {
				continue
			}
			file := pickS(r, files)
			var reads []int
			for i, o := range tr {
				if o.Path == file && (o.Kind == "read" || o.Kind == "seek") {
					reads = append(reads, i)
				}
			}
			if len(reads) < 2 {
				continue
			}
			size := len(c.Files[file].bytes())
			ed := editSpec{Op: "cut-at-record", At: r.Intn(size + 1)}
			switch r.Intn(4) {
			case 0:
				ed = editSpec{Op: "truncate", Len: r.Intn(size + 1)}
			case 1:
				ed = inputEdit(r, file)
			}
			arg, _ := json.Marshal(editStep{File: file, Edit: ed})
			// between the first pass over the file and the end of the second
			at := reads[1+r.Intn(len(reads)-1)]
			rs.Faults = append(rs.Faults, simos.Fault{AtOp: at, Kind: "call", Arg: string(arg)})
			outside = append(outside, [2]interface{}{si, file})
		case 0: // kill somewhere, biased towards cache-file operations
			if len(tr) == 0 {
				continue
			}
			at := r.Intn(len(tr))
			if r.Chance(2, 3) {
				var cand []int
				for i, o := range tr {
					if o.Class == "cache" {
						cand = append(cand, i)
					}
				}
				if len(cand) > 0 {
					at = cand[r.Intn(len(cand))]
				}
			}
			torn := 0
			if tr[at].Kind == "write" && tr[at].Len > 0 {
				torn = r.Intn(tr[at].Len + 1)
			}
			rs.Faults = append(rs.Faults, simos.Fault{AtOp: at, Kind: "kill", Torn: torn})
		case 1: // an I/O error on a cache-dir or temp-dir operation
			var cand []int
			for i, o := range tr {
				if o.Class == "cache" || o.Class == "tmp" {
					cand = append(cand, i)
				}
			}
			if len(cand) == 0 {
				continue
			}
			at := cand[r.Intn(len(cand))]
			kind := pickS(r, []string{"eio", "enospc", "eacces", "enoent"})
			torn := 0
			if tr[at].Kind == "write" && tr[at].Len > 0 {
				torn = r.Intn(tr[at].Len)
			}
			rs.Faults = append(rs.Faults, simos.Fault{AtOp: at, Kind: kind, Torn: torn})
		case 2: // the output accepts only B bytes (same B for the reference)
			var outLen int
			for _, s := range x.steps {
				if s.idx == si && !s.nested {
					outLen = len(s.ref.Stdout)
				}
			}
			if outLen == 0 {
				continue
			}
			b := r.Intn(outLen)
			if r.Chance(1, 4) {
				b = 0
			}
			rs.SinkLimit = &b
			// a full disk behind a redirection, a failing device, or a reader
			// that went away (gts ... | head)
			rs.SinkErr = []string{"", "", "epipe", "epipe", "eio", "once"}[r.Intn(6)]
		}
	}
	// after the faulted step, make sure an identical fault-free invocation follows
	last := -1
	for i, s := range c.Steps {
		if s.Run != nil && (len(s.Run.Faults) > 0 || s.Run.SinkLimit != nil || s.Run.StdinFail > 0) {
			last = i
		}
	}
	_ = stdinFailed
	if last < 0 {
		return nil
	}
	f := c.Steps[last].Run
	again := &runStep{Argv: append([]string(nil), f.Argv...), Stdin: f.Stdin, Chunks: f.Chunks}
	if len(outside) > 0 {
		// whoever rewrote the files puts them back right after the step, and
		// the identical invocation follows at the end of the history
		for k := len(outside) - 1; k >= 0; k-- {
			si, file := outside[k][0].(int), outside[k][1].(string)
			rest := append([]cliStep{{Edit: &editStep{File: file, Edit: editSpec{Op: "restore"}}}}, c.Steps[si+1:]...)
			c.Steps = append(c.Steps[:si+1:si+1], rest...)
		}
		c.Steps = append(c.Steps, cliStep{Run: again})
		return c
	}
	if last == len(c.Steps)-1 || r.Chance(1, 2) {
		c.Steps = append(c.Steps, cliStep{Run: again})
	}
	return c
}

// addParallel turns one step of a fault-free history into several
// invocations that run at the same time (see zz_verif_c14par.go), aimed by
// the trace of the first execution.
func addParallel(r *core.RNG, sc *cliScenario, x *cliExec) *cliScenario {
	c := sc.clone()
	c.Mode = "c14-par"
	toStdout := func(rs *runStep) bool {
		for _, a := range rs.Argv {
			if a == "-o" || strings.HasPrefix(a, "--output") || strings.HasPrefix(a, "-o") && len(a) > 2 {
				return false
			}
		}
		return true
	}
	var runs []int
	for i, s := range c.Steps {
		// the parties write to their standard output only: the user files
		// every one of them is judged on stay as they are
		if s.Run != nil && len(s.Run.Argv) > 0 && s.Run.Argv[0] != "cache" && toStdout(s.Run) {
			runs = append(runs, i)
		}
	}
	if len(runs) == 0 {
		return nil
	}
	si := runs[r.Intn(len(runs))]
	rs := c.Steps[si].Run
	var tr []simos.OpRec
	for _, s := range x.steps {
		if s.idx == si && !s.nested {
			tr = s.trace
		}
	}
	if len(tr) == 0 {
		return nil
	}
	same := func(o *runStep) *runStep {
		return &runStep{Argv: append([]string(nil), o.Argv...), Stdin: o.Stdin, Chunks: o.Chunks, StdinFile: o.StdinFile, StdinOffset: o.StdinOffset}
	}
	par := &parStep{Runs: []*runStep{same(rs)}}
	other := func() *runStep {
		switch r.Intn(8) {
		case 0:
			return same(c.Steps[runs[r.Intn(len(runs))]].Run)
		case 1:
			return &runStep{Argv: []string{"cache", "purge"}}
		}
		// the same invocation: two shells, a script started twice
		return same(rs)
	}
	par.Runs = append(par.Runs, other())
	if r.Chance(1, 2) {
		par.Runs = append(par.Runs, other())
	}
	n := len(par.Runs)
	if r.Chance(1, 5) {
		// one of them is killed on the way
		k := r.Intn(n)
		par.Runs[k].Faults = []simos.Fault{{AtOp: r.Intn(len(tr)), Kind: "kill"}}
	} else if r.Chance(1, 5) {
		// one of them meets an I/O error on a cache or temporary file
		var cand []int
		for i, o := range tr {
			if o.Class == "cache" || o.Class == "tmp" {
				cand = append(cand, i)
			}
		}
		if len(cand) > 0 {
			k := r.Intn(n)
			par.Runs[k].Faults = []simos.Fault{{AtOp: cand[r.Intn(len(cand))], Kind: pickS(r, []string{"eio", "enospc", "eacces", "enoent"})}}
		}
	} else if r.Chance(1, 5) {
		// one of them writes to a reader that goes away (| head)
		k := r.Intn(n)
		var outLen int
		for _, s := range x.steps {
			if s.idx == si && !s.nested {
				outLen = len(s.ref.Stdout)
			}
		}
		if outLen > 0 {
			b := r.Intn(outLen)
			par.Runs[k].SinkLimit, par.Runs[k].SinkErr = &b, "epipe"
		}
	}
	const toTheEnd = 1 << 30
	switch r.Intn(3) {
	case 0:
		// the stalled writer: one gets somewhere and waits, another gets less
		// far and waits, the first finishes, the others follow
		a := 1 + r.Intn(len(tr))
		b := 1 + r.Intn(a)
		if r.Chance(1, 3) {
			b = 1 + r.Intn(len(tr))
		}
		par.Schedule = [][2]int{{0, a}, {1, b}, {0, toTheEnd}}
		if n > 2 {
			par.Schedule = append(par.Schedule, [2]int{2, toTheEnd})
		}
	case 1:
		// bursts
		budget := n * len(tr)
		for budget > 0 {
			l := []int{1, 1, 2, 3, 5, 8, 20, 60, 200}[r.Intn(9)]
			par.Schedule = append(par.Schedule, [2]int{r.Intn(n), l})
			budget -= l
		}
	default:
		// switches at operations on the cache directory only: everybody runs
		// up to such an operation, then they take turns one operation at a time
		var cacheOps []int
		for i, o := range tr {
			if o.Class == "cache" {
				cacheOps = append(cacheOps, i)
			}
		}
		if len(cacheOps) == 0 {
			return nil
		}
		first := cacheOps[r.Intn(len(cacheOps))]
		for k := 0; k < n; k++ {
			par.Schedule = append(par.Schedule, [2]int{k, first + 1})
		}
		for t := r.Range(4, 60); t > 0; t-- {
			par.Schedule = append(par.Schedule, [2]int{r.Intn(n), r.Range(1, 3)})
		}
	}
	c.Steps[si] = cliStep{Par: par}
	// and afterwards the same invocation once more, alone
	c.Steps = append(c.Steps, cliStep{Run: same(rs)})
	return c
}

// ---- the engine ----

type c14Engine struct{}

func (c14Engine) Meta() core.Meta {
	return core.Meta{
		Property:   "C14",
		Level:      "exploration",
		NonVacuous: []string{"warm_hit_served", "invalid_entry_rearmed", "failure_after_cache_writer_armed", "stdin_spooled_to_temp_file", "input_given_as_named_pipe", "option_value_with_bytes_that_are_not_utf8", "invocations_at_the_same_time", "invocation_ran_inside_another"},
		Rule: "Each simulated run draws a history of 1-4 (thorough 1-6) gts invocations from its seed, built around one anchor invocation of one of the 19 " +
			"cached subcommands with seeded options, positionals, input (corpus records, multi-record, FASTA, invalid second record, garbage tail, empty), " +
			"stdin as pipe (seeded chunk schedule), redirected file at an offset or tty+path, inputs also as named pipes, option values also as byte strings that are not UTF-8, stdout or -o (names with many extensions), -F, and environment (cache dir ok / undefined / uncreatable / read-only / on a file system with N bytes of room, temp dir " +
			"ok / missing / on a file system with N bytes of room): identical repeats, one-aspect variants, input edits, secondary-input edits, purge, unrelated commands; 45 % of the histories have the pair shape (a run that succeeds, then the same run with exactly one argument changed, permuted or added, or after an edit of the input or of the secondary file). Every step runs as a simulated " +
			"process (real command code, real TryCache, real cmd/cache) on the shared simulated disk and is compared with the same argv + --no-cache on a " +
			"pristine machine: stdout bytes, exit status, every user file. The history is then executed again with faults aimed by the first execution's " +
			"trace: kill at an operation (torn write), EIO/ENOSPC/EACCES/ENOENT on a cache-dir or temp-dir operation, stdout accepting only B bytes and then failing with ENOSPC, EIO or EPIPE (SIGPIPE unless ignored); the faulted " +
			"step itself is never judged, every later fault-free step is. A quarter of the histories are executed a third time with one step turned into 2-3 invocations that run at the same time " +
			"(the same invocation twice or three times, another one of the history, a purge; one may be killed or lose its reader) under a seeded schedule: the stalled writer, bursts, or turns of 1-3 operations from a cache-directory operation on. A case is one judged step; it is non-trivial when its state key is new.",
		StateRule: "distinct (mode, subcommand, option-flag set, stdin mode, cache outcome {uncached, miss-armed, hit, armed-failed, killed} read off the event trace, exit status, sink, first fault fired); for invocations at the same time: (subcommand, number of parties, for the first eight hand-overs: which party was set aside behind which kind of operation on which class of file)",
		Assumptions: []string{
			"the simulated os reproduces what the real binary sees (differential self-tests: ./check selftest simfs, ./check selftest fidelity)",
			"stderr text, cache directory contents and leftover temp files are not part of the statement and are not compared",
			"a step hit by an injected fault is never judged; every later step is, whatever the fault was",
			"environments are the same for the cached and the reference run and are judged strictly",
			"invocations at the same time: 2-3 real mains on one simulated machine under a seeded schedule of (party, operations) grants, and one invocation run whole while another is held at an operation; every party but `gts cache purge` is judged like any other step",
		},
		Real: []string{"every command function of cmd/gts incl. argument parsing via go-gts/flags", "cmd/gts TryCache, ioDelegate, attachment, encodePayload", "cmd/cache",
			"seqio, gts, pars, wrap, ascii, flip", "compress/flate, crypto/sha1, encoding/json, bufio"},
		Stub: []string{"package os / io/ioutil / path/filepath.Walk / go-isatty (the simulator)", "flags.Run + os.Exit (argv from the scenario, status returned)",
			"process start (qualifier registries restored to their init-time value)"},
		NotDecided: []string{"whether the uncached output itself is right (C15 etc.): the oracle only relates cached to uncached"},
	}
}

func (c14Engine) Runs(tier string) int {
	if tier == "thorough" {
		return 120000
	}
	return 6000
}

func wrapC14(c *cliScenario) json.RawMessage {
	b, _ := json.Marshal(c)
	return b
}

func (c14Engine) RunSeed(tier string, seed uint64, idx int) *core.Result {
	r := core.NewRNG(seed)
	res := &core.Result{Seed: seed, Probes: map[string]int{
		"warm_hit_served": 0, "hit_with_-o": 0, "invalid_entry_rearmed": 0, "failure_after_cache_writer_armed": 0,
		"stdin_spooled_to_temp_file": 0, "env_without_usable_cache": 0}, Faults: map[string]int{}, Extended: map[string]int{}}
	loadHelpTables()
	if idx == 0 {
		for _, d := range helpDrift {
			res.Extended[d]++
		}
		res.Probes["help_texts_compared_with_option_tables"] = len(cachedCommands)
	}
	sc := genHistory(r, tier)
	core.CurrentSig = "cli"
	x := execCli("C14", sc, res, wrapC14)
	vs := x.vs
	digest := x.w.Log.Digest()
	if r.Chance(3, 5) {
		if fsc := addFaults(r, sc, x); fsc != nil {
			y := execCli("C14", fsc, res, wrapC14)
			vs = append(vs, y.vs...)
			digest += y.w.Log.Digest()
			if idx%50 == 1 {
				res.Sample = wrapC14(fsc)
			}
		}
	}
	if r.Chance(1, 4) {
		if psc := addParallel(r, sc, x); psc != nil {
			y := execCli("C14", psc, res, wrapC14)
			vs = append(vs, y.vs...)
			digest += y.w.Log.Digest()
			if idx%50 == 2 {
				res.Sample = wrapC14(psc)
			}
		}
	}
	if res.Sample == nil && idx%50 == 0 {
		res.Sample = wrapC14(sc)
	}
	res.Violations = vs
	res.Digest = digest
	return res
}

func (c14Engine) Replay(raw json.RawMessage) ([]core.Violation, string, error) {
	var sc cliScenario
	if err := json.Unmarshal(raw, &sc); err != nil {
		return nil, "", err
	}
	return cliReplay("C14", &sc, wrapC14)
}

func (c14Engine) Candidates(raw json.RawMessage) []json.RawMessage {
	var sc cliScenario
	if json.Unmarshal(raw, &sc) != nil {
		return nil
	}
	var out []json.RawMessage
	for _, c := range cliCandidates(&sc) {
		out = append(out, wrapC14(c))
	}
	return out
}

// ---- the CLI family of C13 ----

func wrapC13(c *cliScenario) json.RawMessage {
	b, _ := json.Marshal(c13Scenario{Kind: "cli", Cli: c})
	return b
}

// c13CliRun: gts X cold (possibly killed or hit by a power cut), a fault on
// the entry it made, gts X again; the last run must equal the reference.
func c13CliRun(tier string, seed uint64, r *core.RNG) *core.Result {
	res := &core.Result{Seed: seed, Probes: map[string]int{"intact_total": 0, "intact_opened": 0}, Faults: map[string]int{}, Extended: map[string]int{}}
	var iv invocation
	for {
		iv = genInvocation(r, "")
		// valid inputs only and stdout output: failing runs are C14's business
		if strings.Contains(iv.Input, "bad") || strings.Contains(iv.Input, "garbage") || strings.Contains(iv.Input, "empty") || iv.Out != "" {
			continue
		}
		break
	}
	sc := &cliScenario{Mode: "c13", Env: cliEnv{Cache: "ok", Tmp: "ok"}, Files: map[string]fileSpec{}}
	first := iv.step(r)
	addFiles(sc, first)
	// dry run to learn the trace and whether X succeeds at all
	dry := &cliScenario{Mode: "c13", Env: sc.Env, Files: sc.Files, Steps: []cliStep{{Run: first}}}
	dres := &core.Result{}
	dx := execCli("C13", dry, dres, wrapC13)
	res.SimOps += dres.SimOps
	if len(dx.steps) == 0 || dx.steps[0].ref.Status != 0 || len(dx.steps[0].created) == 0 {
		// X fails or does not arm the cache: nothing for C13 here
		res.Digest = dx.w.Log.Digest()
		res.Evaluations = 1
		return res
	}
	tr := dx.steps[0].trace
	entry, _ := dx.w.GetFile(dx.steps[0].created[0])
	run1 := &runStep{Argv: first.Argv, Stdin: first.Stdin, Chunks: first.Chunks}
	var disk *diskStep
	var edit *editStep
	switch r.Pick([]int{30, 10, 60, 25, 30}) {
	case 4: // an I/O error on a write, create or close of the cache file while X runs
		var cand []int
		for i, o := range tr {
			if o.Class == "cache" && (o.Kind == "write" || o.Kind == "create" || o.Kind == "close") {
				cand = append(cand, i)
			}
		}
		at := cand[r.Intn(len(cand))]
		if r.Chance(1, 3) {
			at = cand[0+r.Intn(minInt(2, len(cand)))] // the create and the placeholder header
		} else if r.Chance(1, 3) {
			at = cand[len(cand)-1-r.Intn(minInt(3, len(cand)))] // the final flush, the header, the close
		}
		torn := 0
		if tr[at].Kind == "write" && tr[at].Len > 0 {
			torn = r.Intn(tr[at].Len)
		}
		run1.Faults = []simos.Fault{{AtOp: at, Kind: pickS(r, []string{"eio", "enospc", "eacces"}), Torn: torn}}
		if r.Chance(1, 3) {
			// ... and the process dies a little later
			later := at + 1 + r.Intn(8)
			run1.Faults = append(run1.Faults, simos.Fault{AtOp: later, Kind: "kill"})
		}
	case 3: // no damage at all: the entry X made is intact, but the second run has another input
		edit = &editStep{File: iv.Input, Edit: inputEdit(r, iv.Input)}
		if r.Chance(1, 3) {
			edit.Edit = editSpec{Op: "append", Text: "\n"}
		}
	case 0: // kill X at a cache-file operation
		var cand []int
		for i, o := range tr {
			if o.Class == "cache" {
				cand = append(cand, i)
			}
		}
		at := cand[r.Intn(len(cand))]
		if r.Chance(1, 3) {
			at = cand[len(cand)-1-r.Intn(minInt(4, len(cand)))]
		}
		torn := 0
		if tr[at].Kind == "write" && tr[at].Len > 0 {
			torn = r.Intn(tr[at].Len + 1)
		}
		run1.Faults = []simos.Fault{{AtOp: at, Kind: "kill", Torn: torn}}
	case 1: // power cut after X finished
		pl := &simos.PowerLoss{LenFull: r.Chance(1, 2)}
		for j := r.Range(1, 3); j > 0; j-- {
			pl.Drop = append(pl.Drop, r.Intn(1<<20))
		}
		run1.PowerLoss = pl
	case 2: // corruption between the runs
		n := len(entry)
		switch r.Intn(6) {
		case 5:
			// a directory where the entry was
			disk = &diskStep{Kind: "dir"}
		case 0, 1:
			at := r.Intn(n)
			if r.Chance(1, 3) {
				at = r.Intn(minInt(60, n))
			}
			disk = &diskStep{Kind: "flip", At: at, Mask: 1 + r.Intn(255)}
		case 2:
			disk = &diskStep{Kind: "truncate", Len: r.Intn(n)}
		case 3:
			disk = &diskStep{Kind: "extend", Tail: pickS(r, []string{"byte", "zeros", "flateblock", "selfbody", "random"}), Len: 1 + r.Intn(64), Mask: r.Intn(256)}
		case 4:
			disk = &diskStep{Kind: "delete"}
		}
	}
	sc.Steps = append(sc.Steps, cliStep{Run: run1})
	if disk != nil {
		sc.Steps = append(sc.Steps, cliStep{Disk: disk})
	}
	if edit != nil {
		sc.Steps = append(sc.Steps, cliStep{Edit: edit})
	}
	sc.Steps = append(sc.Steps, cliStep{Run: &runStep{Argv: first.Argv, Stdin: first.Stdin, Chunks: first.Chunks}})
	core.Current, core.CurrentSig = c13Scenario{Kind: "cli", Cli: sc}, "cli"
	x := execCli("C13", sc, res, wrapC13)
	fk := x.lastFaultKind(len(sc.Steps) - 1)
	last := x.steps[len(x.steps)-1]
	x.key(fmt.Sprintf("cli|%s|%s|second-run=%s", iv.Cmd, fk, last.outcome()))
	if last.outcome() == "hit" {
		// the entry survived the fault intact (e.g. torn == full length)
		res.Probes["cli_second_run_served_from_cache"]++
	}
	res.Violations = x.vs
	res.Digest = x.w.Log.Digest()
	res.Sample = wrapC13(sc)
	return res
}

func minInt(a, b int) int {
	if a < b {
		return a
	}
	return b
}
