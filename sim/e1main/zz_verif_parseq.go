package main

// Self-test of the hand-over between simulated gts processes (see
// zz_verif_c14par.go): a `par` step whose schedule lets every party run to its
// end before the next one gets its first operation IS the sequence of those
// invocations. So for many seeded histories the two executions - the parties
// started together and granted their operations one party after the other, and
// the same invocations as ordinary steps - must agree in everything: every
// party's status, standard output and complete operation trace (kind, path,
// offset, length, result of every simulated call), and every file on the
// simulated disk afterwards. A package-level variable, a stream or an argument
// vector that leaked from one party into another across a hand-over shows up
// as a difference here; so would a process that is not reset when started
// beside others.

import (
	"bytes"
	"crypto/sha256"
	"encoding/hex"
	"fmt"
	"sort"
	"strconv"

	"github.com/go-gts/gts/internal/verifsim/core"
	"github.com/go-gts/gts/internal/verifsim/simos"
)

func init() { core.Extras["parseq"] = parSeqMain }

func diskDigest(w *simos.World) string {
	names := make([]string, 0, len(w.Files))
	for p := range w.Files {
		names = append(names, p)
	}
	sort.Strings(names)
	h := sha256.New()
	for _, p := range names {
		if d, ok := w.GetFile(p); ok {
			fmt.Fprintf(h, "%s:%d:", p, len(d))
			h.Write(d)
		}
	}
	return hex.EncodeToString(h.Sum(nil))
}

func parSeqMain(args []string) int {
	if len(args) < 1 {
		fmt.Println("usage: parseq <histories> [seed]")
		return 2
	}
	n, _ := strconv.Atoi(args[0])
	seed := uint64(1)
	if len(args) > 1 {
		seed, _ = strconv.ParseUint(args[1], 10, 64)
	}
	loadHelpTables()
	compared, parties, ops, bad := 0, 0, 0, 0
	for i := 0; i < n; i++ {
		r := core.NewRNG(core.Mix(seed, 0x9a75e9, uint64(i)))
		sc := genHistory(r, "quick")
		x := execCli("C14", sc, &core.Result{}, wrapC14)
		psc := addParallel(r, sc, x)
		if psc == nil {
			continue
		}
		ssc := psc.clone()
		var steps []cliStep
		for k, st := range psc.Steps {
			if st.Par == nil {
				steps = append(steps, ssc.Steps[k])
				continue
			}
			var sch [][2]int
			for p := range st.Par.Runs {
				sch = append(sch, [2]int{p, 1 << 30})
				steps = append(steps, cliStep{Run: ssc.Steps[k].Par.Runs[p]})
			}
			st.Par.Schedule = sch
		}
		ssc.Steps = steps
		a := execCli("C14", psc, &core.Result{}, wrapC14)
		b := execCli("C14", ssc, &core.Result{}, wrapC14)
		compared++
		what := ""
		if len(a.steps) != len(b.steps) {
			what = fmt.Sprintf("%d steps recorded against %d", len(a.steps), len(b.steps))
		}
		for k := 0; what == "" && k < len(a.steps); k++ {
			sa, sb := a.steps[k], b.steps[k]
			parties++
			switch {
			case sa.real.Status != sb.real.Status || sa.real.Killed != sb.real.Killed:
				what = fmt.Sprintf("step %d %q: status %d against %d", k, sa.run.Argv, sa.real.Status, sb.real.Status)
			case !bytes.Equal(sa.real.Stdout, sb.real.Stdout):
				what = fmt.Sprintf("step %d %q: %d bytes of standard output against %d", k, sa.run.Argv, len(sa.real.Stdout), len(sb.real.Stdout))
			case len(sa.trace) != len(sb.trace):
				what = fmt.Sprintf("step %d %q: %d operations against %d", k, sa.run.Argv, len(sa.trace), len(sb.trace))
			}
			for o := 0; what == "" && o < len(sa.trace); o++ {
				ops++
				if sa.trace[o] != sb.trace[o] {
					what = fmt.Sprintf("step %d %q operation %d: %+v against %+v", k, sa.run.Argv, o, sa.trace[o], sb.trace[o])
				}
			}
		}
		if what == "" && diskDigest(a.w) != diskDigest(b.w) {
			what = "the disks differ afterwards"
		}
		if what == "" && (len(a.vs) > 0 || len(b.vs) > 0) {
			what = fmt.Sprintf("%d and %d violations reported", len(a.vs), len(b.vs))
		}
		if what != "" {
			bad++
			if bad <= 5 {
				fmt.Printf("parseq: history %d: started together and run one after the other the parties do not do what the same invocations do as a sequence: %s\n  scenario: %s\n", i, what, wrapC14(psc))
			}
		}
	}
	fmt.Printf("selftest parseq: %d histories with a par step run both ways, %d processes and %d operations compared, %d differ\n", compared, parties, ops, bad)
	if bad > 0 || compared == 0 {
		fmt.Println("SELFTEST-FAIL parseq")
		return 2
	}
	return 0
}
