package main

// C13, library level: the real cmd/cache create/write/close/open code over the
// simulated disk, with crash points, torn writes, lost writes and corruption
// of the finished file. See DESIGN.md §3.

import (
	"bytes"
	"crypto/md5"
	"crypto/sha1"
	"crypto/sha256"
	"encoding/hex"
	"encoding/json"
	"fmt"
	"hash"
	"io"
	"runtime/debug"

	"github.com/go-gts/gts/cmd/cache"
	"github.com/go-gts/gts/internal/verifsim/core"
	"github.com/go-gts/gts/internal/verifsim/corpus"
	"github.com/go-gts/gts/internal/verifsim/simos"
)

const libCacheHome = "/home/u/.cache"
const libCacheDir = libCacheHome + "/gts-cache"

type bodySpec struct {
	Kind   string `json:"kind"` // empty | text | corpus | random | zeros
	Len    int    `json:"len,omitempty"`
	Seed   uint64 `json:"seed,omitempty"`
	Corpus string `json:"corpus,omitempty"`
	Repeat int    `json:"repeat,omitempty"`
}

func (b bodySpec) bytes() []byte {
	switch b.Kind {
	case "empty":
		return nil
	case "corpus":
		d := corpus.Get(b.Corpus)
		n := b.Repeat
		if n < 1 {
			n = 1
		}
		return bytes.Repeat(d, n)
	case "random":
		return core.NewRNG(b.Seed).Bytes(b.Len)
	case "zeros":
		return make([]byte, b.Len)
	default: // text
		r := core.NewRNG(b.Seed)
		words := []string{"gene", "CDS", "join", "acgt", "ttga", "complement", "/note=", "\n", " ", "ORIGIN", "1..20", "phage"}
		var buf bytes.Buffer
		for buf.Len() < b.Len {
			buf.WriteString(words[r.Intn(len(words))])
		}
		return buf.Bytes()[:b.Len]
	}
}

func (b bodySpec) class() string {
	n := len(b.bytes())
	switch {
	case n == 0:
		return "empty"
	case n == 1:
		return "1byte"
	case n < 4096:
		return "small"
	case n < 65536:
		return "medium"
	default:
		return "multiblock"
	}
}

type diskFault struct {
	Kind  string `json:"kind"` // flip | truncate | extend | copykey | delete
	At    int    `json:"at,omitempty"`
	Mask  int    `json:"mask,omitempty"`
	Len   int    `json:"len,omitempty"`
	Tail  string `json:"tail,omitempty"` // byte | zeros | flateblock | selfcopy | random
	Other int    `json:"other,omitempty"`
}

type libOp struct {
	Op        string           `json:"op"` // put | disk
	Key       int              `json:"key"`
	Body      *bodySpec        `json:"body,omitempty"`
	Writes    []int            `json:"writes,omitempty"`
	Level     int              `json:"level,omitempty"`
	Fault     *simos.Fault     `json:"fault,omitempty"`
	Faults    []simos.Fault    `json:"faults,omitempty"` // an I/O error, optionally followed by a kill
	PowerLoss *simos.PowerLoss `json:"powerloss,omitempty"`
	Disk      *diskFault       `json:"disk,omitempty"`
	// Careless: the caller ignores every error the library returns, never
	// unlinks anything and keeps using whatever File it was handed.
	Careless bool `json:"careless,omitempty"`
	// ReuseFor: the caller computes its digests into one pair of buffers:
	// once Create has returned it computes those of its next input - key
	// ReuseFor-1 - into the same buffers, while the entry is still being
	// written (0: it does not). The entry was created for the key the
	// buffers held then; nobody may be served it under the other.
	ReuseFor int `json:"reuse_for,omitempty"`
}

type libScenario struct {
	Hash string      `json:"hash"`
	Keys [][2]string `json:"keys"` // hex rsum, dsum
	// Arena: the caller keeps all its digests in one buffer, root digest
	// first, and hands the library slices of it (a table of keys read from
	// an index file, digests computed into a reused scratch buffer): every
	// slice has spare capacity, and what lies behind it is the caller's.
	Arena bool `json:"arena,omitempty"`
	Ops  []libOp     `json:"ops"`
}

type c13Scenario struct {
	Kind string        `json:"kind"` // lib | cli | conc
	Lib  *libScenario  `json:"lib,omitempty"`
	Cli  *cliScenario  `json:"cli,omitempty"`
	Conc *concScenario `json:"conc,omitempty"`
}

func hasDiscard(f *cache.File) bool {
	_, ok := interface{}(f).(interface{ Discard() error })
	return ok
}

// discard gives a cache file up without finalising it, the way the CLI does
// for a run that failed (older trees have no Discard and close the file).
func discard(f *cache.File) {
	if d, ok := interface{}(f).(interface{ Discard() error }); ok {
		d.Discard()
		return
	}
	f.Close()
}

func newHashByName(n string) hash.Hash {
	switch n {
	case "md5":
		return md5.New()
	case "sha256":
		return sha256.New()
	}
	return sha1.New()
}

type legitEntry struct {
	image []byte
	body  []byte
	acked bool
}

// libRun is the interpreter state for one library-level scenario.
type libRun struct {
	sc     *libScenario
	w      *simos.World
	h      hash.Hash
	keys   [][2][]byte
	paths  []string
	legit  [][]legitEntry
	res    *core.Result
	vs     []core.Violation
	keyset map[string]bool
	// last put bookkeeping for the sweep
	lastTrace []simos.OpRec
	lastLog   []simos.WriteRec
	lastPre   []byte
	lastPreOK bool
	keys0     [][2][]byte // the digests as the scenario gives them
	arena     []byte // the caller's buffer of digests (scenario.Arena)
	arena0    []byte // what it held when the scenario started
}

// arg is a digest as the caller hands it to the library: a private copy, or
// the caller's own slice of its arena.
func (r *libRun) arg(b []byte) []byte {
	if r.sc.Arena {
		return b
	}
	return append([]byte(nil), b...)
}

// callerMemory looks at the caller's buffer of digests after a library call.
// When the library wrote into it, the slices the caller holds for one key
// may now spell another: if opening with them is then given that other key's
// entry, the caller reads an entry "keyed for a different digest" - the
// violation. A write without that consequence is tallied. The buffer is put
// right again either way.
func (r *libRun) callerMemory(call string, mk func() *libScenario) {
	if !r.sc.Arena || bytes.Equal(r.arena, r.arena0) {
		return
	}
	at := 0
	for at < len(r.arena) && r.arena[at] == r.arena0[at] {
		at++
	}
	reported := false
	for j := range r.keys {
		if bytes.Equal(r.keys[j][0], r.keys0[j][0]) && bytes.Equal(r.keys[j][1], r.keys0[j][1]) {
			continue
		}
		for i := range r.keys0 {
			if i == j || !bytes.Equal(r.keys[j][0], r.keys0[i][0]) || !bytes.Equal(r.keys[j][1], r.keys0[i][1]) {
				continue
			}
			var oerr error
			r.inProc(simos.ProcSpec{}, func() {
				f, err := cache.Open(libCacheDir, r.h, r.keys[j][0], r.keys[j][1])
				oerr = err
				if f != nil {
					f.Close()
				}
			})
			if oerr == nil && !reported {
				reported = true
				r.violate("opened-other-key", call, fmt.Sprintf("the caller keeps the digests of its %d keys in one buffer (%d bytes, each digest once) and hands the library slices of it; %s wrote behind a slice it was given (the buffer differs from byte %d on), so that the slices the caller holds for key %d now spell key %d - and Open with them succeeds: the caller is given the entry of a key it did not ask for", len(r.keys), len(r.arena), call, at, j, i), mk())
			}
		}
	}
	if !reported {
		if r.res.Extended == nil {
			r.res.Extended = map[string]int{}
		}
		r.res.Extended["caller-memory-written-without-a-wrong-entry:"+call]++
	}
	copy(r.arena, r.arena0)
}

func newLibRun(sc *libScenario, res *core.Result) *libRun {
	r := &libRun{sc: sc, res: res, keyset: map[string]bool{}}
	r.w = simos.NewWorld(simos.Env{CacheHome: libCacheHome, TmpDir: "/tmp"}, false)
	r.w.MkdirAllRaw(libCacheDir)
	r.w.MkdirAllRaw("/tmp")
	r.h = newHashByName(sc.Hash)
	// the arena holds every distinct digest once, in order of first use
	place := map[string][2]int{}
	if sc.Arena {
		for _, k := range sc.Keys {
			for _, hx := range k {
				if _, ok := place[hx]; !ok {
					d, _ := hex.DecodeString(hx)
					place[hx] = [2]int{len(r.arena), len(r.arena) + len(d)}
					r.arena = append(r.arena, d...)
				}
			}
		}
		r.arena0 = append([]byte(nil), r.arena...)
	}
	for _, k := range sc.Keys {
		rs, _ := hex.DecodeString(k[0])
		ds, _ := hex.DecodeString(k[1])
		if sc.Arena {
			// slices of the arena, with the capacity a plain slice expression gives them
			a, b := place[k[0]], place[k[1]]
			rs, ds = r.arena[a[0]:a[1]], r.arena[b[0]:b[1]]
		}
		r.keys = append(r.keys, [2][]byte{rs, ds})
		r.keys0 = append(r.keys0, [2][]byte{append([]byte(nil), rs...), append([]byte(nil), ds...)})
		h := newHashByName(sc.Hash)
		h.Write(append(append([]byte(nil), rs...), ds...))
		r.paths = append(r.paths, libCacheDir+"/"+hex.EncodeToString(h.Sum(nil)))
	}
	r.legit = make([][]legitEntry, len(sc.Keys))
	return r
}

func (r *libRun) key(s string) {
	if !r.keyset[s] {
		r.keyset[s] = true
		r.res.Keys = append(r.res.Keys, s)
	}
}

func (r *libRun) probe(s string) {
	if r.res.Probes == nil {
		r.res.Probes = map[string]int{}
	}
	r.res.Probes[s]++
}

// inProc runs fn as a simulated process and reports how it ended.
func (r *libRun) inProc(spec simos.ProcSpec, fn func()) (killed bool, pnc string, p *simos.Proc) {
	simos.W = r.w
	if spec.SinkLimit == 0 {
		spec.SinkLimit = -1
	}
	p = r.w.StartProc(spec)
	func() {
		defer func() {
			if x := recover(); x != nil {
				if _, ok := x.(simos.CrashSentinel); ok || p.Crashed {
					killed = true
					return
				}
				pnc = fmt.Sprintf("%v\n%s", x, debug.Stack())
			}
		}()
		fn()
	}()
	if p.Crashed {
		killed = true
	}
	r.w.EndProc(0)
	return
}

// put runs the real create/write/close protocol. acked is true when every
// call returned nil.
func (r *libRun) put(op libOp, fault *simos.Fault, pl *simos.PowerLoss) (acked, killed bool, pnc string, p *simos.Proc) {
	var fs []simos.Fault
	if fault != nil {
		fs = []simos.Fault{*fault}
	}
	return r.putFaults(op, fs, pl)
}

// putFaults runs the create/write/close protocol the way the CLI drives it
// (cmd/gts/io.go): an entry that cannot be created is not used, a failed
// write gives the entry up, a run that failed discards it, a run that
// succeeded finalises it. A tree whose cache.File has no Discard is driven
// the way the CLI of that time did: unlink the name, then close.
func (r *libRun) putFaults(op libOp, faults []simos.Fault, pl *simos.PowerLoss) (acked, killed bool, pnc string, p *simos.Proc) {
	core.Tick()
	k := r.keys[op.Key]
	body := op.Body.bytes()
	spec := simos.ProcSpec{PowerLoss: pl, Faults: faults}
	killed, pnc, p = r.inProc(spec, func() {
		a0, a1 := r.arg(k[0]), r.arg(k[1])
		if op.ReuseFor > 0 {
			a0, a1 = append([]byte(nil), k[0]...), append([]byte(nil), k[1]...)
		}
		f, err := cache.CreateLevel(libCacheDir, r.h, a0, a1, op.Level)
		if f == nil {
			return
		}
		if op.ReuseFor > 0 {
			o := r.keys0[(op.ReuseFor-1)%len(r.keys0)]
			if len(o[0]) == len(a0) && len(o[1]) == len(a1) {
				copy(a0, o[0])
				copy(a1, o[1])
			}
		}
		if op.Careless {
			rest := body
			for i := 0; len(rest) > 0; i++ {
				n := len(rest)
				if len(op.Writes) > 0 {
					if c := op.Writes[i%len(op.Writes)]; c >= 1 && c < n {
						n = c
					}
				}
				f.Write(rest[:n])
				rest = rest[n:]
			}
			f.Close()
			return
		}
		ok := err == nil
		if err != nil && !hasDiscard(f) {
			simos.Remove(f.Name())
		}
		rest := body
		for i := 0; len(rest) > 0 && ok; i++ {
			n := len(rest)
			if len(op.Writes) > 0 {
				c := op.Writes[i%len(op.Writes)]
				if c < 1 {
					c = 1
				}
				if c < n {
					n = c
				}
			}
			if _, err := f.Write(rest[:n]); err != nil {
				ok = false
			}
			rest = rest[n:]
		}
		if !ok {
			if !hasDiscard(f) {
				simos.Remove(f.Name())
			}
			discard(f)
			return
		}
		if err := f.Close(); err != nil {
			if !hasDiscard(f) {
				simos.Remove(f.Name())
			}
			return
		}
		acked = true
	})
	if killed || pnc != "" {
		acked = false
	}
	return
}

func (r *libRun) violate(class, sig, detail string, sc *libScenario) {
	b, _ := json.Marshal(c13Scenario{Kind: "lib", Lib: sc})
	r.vs = append(r.vs, core.Violation{Class: class, Signature: sig, Detail: detail, Scenario: b})
}

// check opens key ki with the real Open and applies oracle (S). The scenario
// that reproduces a failure is built lazily by mk.
func (r *libRun) check(ki int, mk func() *libScenario) (opened bool) {
	r.res.Evaluations++
	core.Tick()
	k := r.keys[ki]
	var oerr, rerr error
	var got []byte
	r.callerMemory("CreateLevel-Write-Close", mk)
	_, pnc, _ := r.inProc(simos.ProcSpec{}, func() {
		f, err := cache.Open(libCacheDir, r.h, r.arg(k[0]), r.arg(k[1]))
		oerr = err
		if err != nil {
			if f != nil {
				f.Close()
			}
			return
		}
		if f == nil {
			// "it worked" and nothing to read from
			rerr = fmt.Errorf("Open returned no error and no file")
			return
		}
		got, rerr = io.ReadAll(f)
		f.Close()
	})
	r.callerMemory("Open", mk)
	cur, exists := r.w.GetFile(r.paths[ki])
	intact := -1
	if exists {
		for i, l := range r.legit[ki] {
			if bytes.Equal(l.image, cur) {
				intact = i
			}
		}
	}
	if pnc != "" {
		r.violate("panic", panicSite(pnc), firstLine(pnc), mk())
		return false
	}
	if intact >= 0 {
		r.probe("intact_total")
		if oerr == nil {
			r.probe("intact_opened")
		}
	}
	if oerr != nil {
		return false
	}
	if intact < 0 {
		r.violate("accepted-non-image", "open", fmt.Sprintf("Open returned nil for key %d although the %d bytes on disk are not an image any completed write of this key produced", ki, len(cur)), mk())
		return true
	}
	if rerr != nil {
		r.violate("read-error-after-open", "readall", fmt.Sprintf("Open returned nil but reading failed: %v", rerr), mk())
		return true
	}
	if !bytes.Equal(got, r.legit[ki][intact].body) {
		r.violate("wrong-bytes", "readall", fmt.Sprintf("Open returned nil but reading yields %d bytes that differ from the %d bytes written", len(got), len(r.legit[ki][intact].body)), mk())
	}
	return true
}

// applyDisk performs a between-run fault on key's file.
func (r *libRun) applyDisk(ki int, d *diskFault) {
	path := r.paths[ki]
	cur, ok := r.w.GetFile(path)
	switch d.Kind {
	case "flip":
		if ok && len(cur) > 0 {
			at := d.At % len(cur)
			cur[at] ^= byte(d.Mask)
			r.w.PutFile(path, cur)
		}
	case "truncate":
		if ok {
			n := d.Len
			if n > len(cur) {
				n = len(cur)
			}
			r.w.PutFile(path, cur[:n])
		}
	case "extend":
		if ok {
			r.w.PutFile(path, append(cur, tailBytes(d, cur, r.h.Size())...))
		}
	case "copykey":
		src, ok2 := r.w.GetFile(r.paths[d.Other%len(r.paths)])
		if ok2 {
			r.w.PutFile(path, src)
		}
	case "delete":
		r.w.DeleteFile(path)
	case "dir":
		// something else than a regular file lies under the entry's name
		r.w.DeleteFile(path)
		r.w.MkdirAllRaw(path)
	}
}

func tailBytes(d *diskFault, cur []byte, size int) []byte {
	n := d.Len
	if n < 1 {
		n = 1
	}
	switch d.Tail {
	case "zeros":
		return make([]byte, n)
	case "flateblock":
		// an empty stored deflate block followed by a final one
		return []byte{0x00, 0x00, 0x00, 0xff, 0xff, 0x01, 0x00, 0x00, 0xff, 0xff}
	case "selfcopy":
		return append([]byte(nil), cur...)
	case "selfbody":
		if len(cur) > 3*size {
			return append([]byte(nil), cur[3*size:]...)
		}
		return []byte{0}
	case "random":
		return core.NewRNG(uint64(n)).Bytes(n)
	}
	return []byte{byte(d.Mask)}
}

// execOps runs ops[from:] with the oracle after each one.
func (r *libRun) execOps() {
	for i := range r.sc.Ops {
		op := r.sc.Ops[i]
		prefix := i + 1
		mk := func() *libScenario {
			c := *r.sc
			c.Ops = append([]libOp(nil), r.sc.Ops[:prefix]...)
			return &c
		}
		switch op.Op {
		case "put":
			r.doPut(op, mk)
		case "disk":
			r.applyDisk(op.Key, op.Disk)
		}
		for ki := range r.keys {
			r.check(ki, mk)
		}
	}
}

// doPut executes a put operation of the scenario including its fault.
func (r *libRun) doPut(op libOp, mk func() *libScenario) {
	path := r.paths[op.Key]
	pre, preOK := r.w.GetFile(path)
	// fault-free dry run: the image this write would produce
	acked, _, pnc, p := r.put(op, nil, nil)
	if pnc != "" {
		r.violate("panic", panicSite(pnc), firstLine(pnc), mk())
		return
	}
	image, _ := r.w.GetFile(path)
	body := op.Body.bytes()
	r.lastTrace, r.lastLog, r.lastPre, r.lastPreOK = p.Trace, r.w.WriteLog(path), pre, preOK
	if op.ReuseFor > 0 {
		// whatever this left under the key's name, the caller has no claim
		// that it opens; what must not happen is that it opens for ANOTHER key
		r.probe("digest_buffers_reused_while_entry_pending")
		r.legit[op.Key] = nil
		return
	}
	if !acked {
		// The library refused a fault-free write; nothing was acknowledged.
		r.probe("put_not_acked_fault_free")
		return
	}
	if op.Fault == nil && op.PowerLoss == nil && len(op.Faults) == 0 {
		r.legit[op.Key] = []legitEntry{{image, body, true}}
		return
	}
	// restore, then run with the fault
	if preOK {
		r.w.PutFile(path, pre)
	} else {
		r.w.DeleteFile(path)
	}
	fs := op.Faults
	if op.Fault != nil {
		fs = append([]simos.Fault{*op.Fault}, fs...)
	}
	_, _, pnc, p2 := r.putFaults(op, fs, op.PowerLoss)
	if pnc != "" {
		r.violate("panic", panicSite(pnc), firstLine(pnc), mk())
	}
	r.countFaults(p2)
	r.legit[op.Key] = append(r.legit[op.Key], legitEntry{image, body, false})
}

func (r *libRun) countFaults(p *simos.Proc) {
	if r.res.Faults == nil {
		r.res.Faults = map[string]int{}
	}
	for _, f := range p.Fired {
		r.res.Faults[f]++
	}
}

// derive computes the file image after the first n records of the write log
// plus torn bytes of record n.
func derive(pre []byte, preOK bool, log []simos.WriteRec, n, torn int) []byte {
	img := append([]byte(nil), pre...)
	apply := func(rec simos.WriteRec, limit int) {
		if rec.Off < 0 {
			img = img[:0]
			return
		}
		d := rec.Data
		if limit >= 0 && limit < len(d) {
			d = d[:limit]
		}
		end := int(rec.Off) + len(d)
		for len(img) < end {
			img = append(img, 0)
		}
		copy(img[rec.Off:], d)
	}
	for i := 0; i < n && i < len(log); i++ {
		apply(log[i], -1)
	}
	if n < len(log) && torn > 0 && log[n].Off >= 0 {
		apply(log[n], torn)
	}
	return img
}

// removeStrays deletes what killed writers left beside the entries: files in
// the cache directory that are not the entry of a key of this scenario.
func (r *libRun) removeStrays(keep string) {
	for _, p := range r.w.List(libCacheDir) {
		stray := true
		for _, k := range r.paths {
			if p == k {
				stray = false
			}
		}
		if stray {
			r.w.DeleteFile(p)
		}
	}
}
