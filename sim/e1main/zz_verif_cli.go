package main

// Histories of simulated gts processes over one simulated disk. Shared by the
// C14 engine and the CLI family of C13. See DESIGN.md §3 (CLI family) and §4.

import (
	"bytes"
	"crypto/sha256"
	"encoding/base64"
	"encoding/hex"
	"encoding/json"
	"fmt"
	"os"
	"sort"
	"strings"

	"github.com/go-gts/gts/internal/verifsim/core"
	"github.com/go-gts/gts/internal/verifsim/corpus"
	"github.com/go-gts/gts/internal/verifsim/simos"
)

const (
	cliHome      = "/home/u"
	cliCacheHome = "/home/u/.cache"
	cliTmp       = "/tmp"
	// cliFifo/x is a named pipe that delivers the content of /u/x (gts cmd <(cat x))
	cliFifo = "/fifo"
)

type editSpec struct {
	Op   string `json:"op"` // flip | truncate | append | replace | set
	At   int    `json:"at,omitempty"`
	Mask int    `json:"mask,omitempty"`
	Len  int    `json:"len,omitempty"`
	Text string `json:"text,omitempty"`
	Old  string `json:"old,omitempty"`
}

func (e editSpec) apply(b []byte) []byte {
	switch e.Op {
	case "flip":
		if len(b) > 0 {
			b[e.At%len(b)] ^= byte(e.Mask)
		}
	case "truncate":
		if e.Len < len(b) {
			b = b[:e.Len]
		}
	case "append":
		b = append(b, e.Text...)
	case "replace": // first occurrence of Old at or after At
		at := e.At
		if at > len(b) {
			at = len(b)
		}
		if i := bytes.Index(b[at:], []byte(e.Old)); i >= 0 {
			i += at
			b = append(append(append([]byte(nil), b[:i]...), e.Text...), b[i+len(e.Old):]...)
		} else if i := bytes.Index(b, []byte(e.Old)); i >= 0 {
			b = append(append(append([]byte(nil), b[:i]...), e.Text...), b[i+len(e.Old):]...)
		}
	case "mutate-tail": // swap the At-th residue letter from the end for another one
		k := e.At
	tail:
		for i := len(b) - 1; i >= 0; i-- {
			var to byte
			switch b[i] {
			case 'a':
				to = 'c'
			case 'c':
				to = 'a'
			case 'g':
				to = 't'
			case 't':
				to = 'g'
			case 'A':
				to = 'C'
			case 'C':
				to = 'A'
			case 'G':
				to = 'T'
			case 'T':
				to = 'G'
			default:
				continue
			}
			if k == 0 {
				b[i] = to
				break tail
			}
			k--
		}
	case "resplit": // the same residues, in the same order, cut into records differently: the first sequence line of a FASTA file is cut in two
		for i := 0; i < len(b); {
			j := bytes.IndexByte(b[i:], '\n')
			if j < 0 {
				j = len(b) - i
			}
			if line := b[i : i+j]; len(line) >= 2 && line[0] != '>' {
				m := i + len(line)/2
				b = append(append(append([]byte(nil), b[:m]...), "\n>cut here\n"...), b[m:]...)
				break
			}
			i += j + 1
		}
	case "merge-records": // FASTA: the header lines number At .. At+Len-1 (from 0) are dropped, so that their records become part of the one before
		var out []byte
		h := 0
		for _, line := range bytes.SplitAfter(b, []byte("\n")) {
			if len(line) > 0 && line[0] == '>' {
				h++
				if h-1 >= e.At && h-1 < e.At+e.Len {
					continue
				}
			}
			out = append(out, line...)
		}
		b = out
	case "pad-to": // trailing blank lines up to an exact file size
		for len(b) < e.Len {
			b = append(b, '\n')
		}
	case "set":
		b = []byte(e.Text)
	case "cut-at-record": // keep the records that start before byte At (a download in progress)
		cut := 0
		for _, mark := range []string{"\nLOCUS ", "\n>"} {
			from := 0
			for {
				i := bytes.Index(b[from:], []byte(mark))
				if i < 0 {
					break
				}
				if p := from + i + 1; p <= e.At && p > cut {
					cut = p
				}
				from += i + 1
			}
		}
		if cut > 0 {
			b = b[:cut]
		}
	}
	return b
}

type fileSpec struct {
	Prefix string     `json:"prefix,omitempty"` // bytes in front of everything else
	Repeat int        `json:"repeat,omitempty"` // the parts are repeated this many times
	Parts  []string   `json:"parts,omitempty"`  // corpus member names, concatenated
	Text   string     `json:"text,omitempty"`
	B64    string     `json:"b64,omitempty"`
	Edits  []editSpec `json:"edits,omitempty"`
}

func (f fileSpec) bytes() []byte {
	var b []byte
	for _, p := range f.Parts {
		b = append(b, corpus.Get(p)...)
	}
	if f.Repeat > 1 {
		b = bytes.Repeat(b, f.Repeat)
	}
	b = append(b, f.Text...)
	if f.Prefix != "" {
		b = append([]byte(f.Prefix), b...)
	}
	if f.B64 != "" {
		d, _ := base64.StdEncoding.DecodeString(f.B64)
		b = append(b, d...)
	}
	for _, e := range f.Edits {
		b = e.apply(b)
	}
	return b
}

type cliEnv struct {
	Cache string `json:"cache"` // ok | none | unwritable | readonly | full
	Tmp   string `json:"tmp"`   // ok | missing | full
	// Room: with "full", how many bytes the file system of the cache
	// directory / temp directory holds before it is full.
	CacheRoom int `json:"cache_room,omitempty"`
	TmpRoom   int `json:"tmp_room,omitempty"`
}

type runStep struct {
	Argv  []string `json:"argv"`
	Stdin string   `json:"stdin,omitempty"` // user file piped to stdin; "" = stdin is a tty
	// StdinFile: stdin is not a pipe but a descriptor on the file itself
	// (gts < file), positioned at StdinOffset.
	StdinFile   bool             `json:"stdin_file,omitempty"`
	StdinOffset int              `json:"stdin_offset,omitempty"`
	Chunks      []int            `json:"chunks,omitempty"`
	StdinFail   int              `json:"stdin_fail,omitempty"` // the stdin pipe fails with EIO after that many bytes (0: never)
	SinkLimit   *int             `json:"sink_limit,omitempty"`
	SinkErr     string           `json:"sink_err,omitempty"` // how stdout fails at the limit: "" (ENOSPC) | eio | epipe
	Faults      []simos.Fault    `json:"faults,omitempty"`
	PowerLoss   *simos.PowerLoss `json:"powerloss,omitempty"`
}

type diskStep struct {
	Kind  string `json:"kind"`  // flip | truncate | extend | copyto | delete
	Entry int    `json:"entry"` // index into the sorted list of cache entries (mod count)
	At    int    `json:"at,omitempty"`
	Mask  int    `json:"mask,omitempty"`
	Len   int    `json:"len,omitempty"`
	Tail  string `json:"tail,omitempty"`
	Other int    `json:"other,omitempty"`
}

type editStep struct {
	File string   `json:"file"`
	Edit editSpec `json:"edit"`
}

// outsideEvent is what a fault of kind "call" or "overlap" carries: an edit
// of a user file, or a whole other invocation.
type outsideEvent struct {
	File   string   `json:"file,omitempty"`
	Edit   editSpec `json:"edit,omitempty"`
	Nested *runStep `json:"nested,omitempty"`
}

type cliStep struct {
	Par  *parStep  `json:"par,omitempty"`
	Run  *runStep  `json:"run,omitempty"`
	Disk *diskStep `json:"disk,omitempty"`
	Edit *editStep `json:"edit,omitempty"`
}

type cliScenario struct {
	Mode  string              `json:"mode"` // c14-strict | c14-fault | c13
	Env   cliEnv              `json:"env"`
	Files map[string]fileSpec `json:"files"`
	Steps []cliStep           `json:"steps"`
}

func (sc *cliScenario) clone() *cliScenario {
	b, _ := json.Marshal(sc)
	var c cliScenario
	json.Unmarshal(b, &c)
	return &c
}

// obs is what the outside world sees of one invocation.
type obs struct {
	Status int
	Stdout []byte
	Files  map[string][]byte // user files after the step
	Killed bool
	Panic  string
}

func (o obs) summary() string {
	s := sha256.Sum256(o.Stdout)
	return fmt.Sprintf("status=%d stdout=%dB/%s files=%s", o.Status, len(o.Stdout), hex.EncodeToString(s[:6]), filesDigest(o.Files))
}

func filesDigest(m map[string][]byte) string {
	names := make([]string, 0, len(m))
	for n := range m {
		names = append(names, n)
	}
	sort.Strings(names)
	h := sha256.New()
	for _, n := range names {
		fmt.Fprintf(h, "%s:%d:", n, len(m[n]))
		h.Write(m[n])
	}
	return hex.EncodeToString(h.Sum(nil)[:6])
}

func sameObs(a, b obs) (bool, string) {
	if a.Status != b.Status {
		return false, "status"
	}
	if !bytes.Equal(a.Stdout, b.Stdout) {
		return false, "stdout"
	}
	if len(a.Files) != len(b.Files) {
		return false, "files"
	}
	for n, d := range a.Files {
		if e, ok := b.Files[n]; !ok || !bytes.Equal(d, e) {
			return false, "file:" + n
		}
	}
	return true, ""
}

func newCliWorld(env cliEnv, keep bool) *simos.World {
	e := simos.Env{CacheHome: cliCacheHome, TmpDir: cliTmp}
	if env.Cache == "none" {
		e.CacheHome = ""
	}
	w := simos.NewWorld(e, keep)
	w.FifoRoot, w.FifoSrc = cliFifo, "/u"
	w.MkdirAllRaw(cliHome)
	if env.Tmp != "missing" {
		w.MkdirAllRaw(cliTmp)
	}
	if env.Cache == "full" || env.Tmp == "full" {
		w.Quota = map[string]int{}
		if env.Cache == "full" {
			w.Quota[cliCacheHome] = env.CacheRoom
		}
		if env.Tmp == "full" {
			w.Quota[cliTmp] = env.TmpRoom
		}
	}
	switch env.Cache {
	case "unwritable":
		w.ReadOnly[cliHome] = true
	case "readonly":
		w.MkdirAllRaw(cliCacheHome + "/gts-cache")
		w.ReadOnly[cliCacheHome+"/gts-cache"] = true
	}
	return w
}

func userFiles(w *simos.World) map[string][]byte {
	m := map[string][]byte{}
	for _, p := range w.List("/") {
		if w.Class(p) == "user" || (w.Env.CacheHome == "" && !strings.HasPrefix(p, cliTmp+"/")) {
			if strings.HasPrefix(p, cliTmp+"/") {
				continue
			}
			d, _ := w.GetFile(p)
			m[p] = d
		}
	}
	return m
}

// stepInfo is what the classifier knows about an executed step.
type stepInfo struct {
	idx      int
	nested   bool // ran while the step idx was held at one of its operations
	overlapped bool // another invocation ran while this one was held
	run      *runStep
	real     obs
	ref      obs
	hit      string   // cache path served, "" if none
	created  []string // cache paths created by this step
	inputSig string   // digest of stdin bytes and user files before the step
	faulted  bool
	fired    []string
	trace    []simos.OpRec
	ops      int
	refFiles map[string][]byte
	refStdin []byte
}

// cliExec is the interpreter for a CLI scenario.
type cliExec struct {
	sc      *cliScenario
	prop    string
	w       *simos.World
	steps   []*stepInfo
	creator map[string]int // cache path -> index of the step that last created it
	vs      []core.Violation
	res     *core.Result
	refMemo map[string]obs
	wrap    func(*cliScenario) json.RawMessage
	parallel bool // the step being recorded ran at the same time as others
	depth   int  // how many invocations are held while the current one runs
	tainted bool // a fault whose consequences the property does not cover has been injected
}

func (x *cliExec) key(s string) {
	for _, k := range x.res.Keys {
		if k == s {
			return
		}
	}
	x.res.Keys = append(x.res.Keys, s)
}

func (x *cliExec) probe(s string) { x.res.Probes[s]++ }

func withNoCache(argv []string) []string {
	// after the subcommand path: "cache purge" has no such flag
	if len(argv) == 0 || argv[0] == "cache" {
		return argv
	}
	out := append([]string{argv[0], "--no-cache"}, argv[1:]...)
	return out
}

// reference runs the same invocation with --no-cache as a fresh process on a
// pristine machine holding the same user files.
func (x *cliExec) reference(rs *runStep, files map[string][]byte, stdin []byte) obs {
	h := sha256.New()
	fmt.Fprintf(h, "%q|%s|%v|%v|%d|%d|", rs.Argv, rs.Stdin, rs.Chunks, rs.StdinFile, rs.StdinOffset, rs.StdinFail)
	if rs.SinkLimit != nil {
		fmt.Fprintf(h, "sink=%d%s|", *rs.SinkLimit, rs.SinkErr)
	}
	h.Write([]byte(filesDigestFull(files)))
	h.Write(stdin)
	k := hex.EncodeToString(h.Sum(nil))
	if o, ok := x.refMemo[k]; ok {
		return o
	}
	w := newCliWorld(x.sc.Env, false)
	for p, d := range files {
		w.PutFile(p, d)
	}
	spec := simos.ProcSpec{SinkLimit: -1, FifoChunks: altChunks(rs.Chunks)}
	if rs.SinkLimit != nil {
		spec.SinkLimit, spec.SinkErr = *rs.SinkLimit, rs.SinkErr
	}
	if rs.Stdin == "" {
		spec.Stdin.Tty = true
	} else {
		spec.Stdin.Data = stdin
		// The reference gets its input in other pieces than the cached run:
		// how a pipe chunks the data is not something a user controls, so it
		// must not show in the output either.
		spec.Stdin.Chunks = altChunks(rs.Chunks)
		spec.Stdin.FailAt = rs.StdinFail
		if rs.StdinFile {
			spec.Stdin.File, spec.Stdin.Offset = rs.Stdin, int64(rs.StdinOffset)
		}
	}
	r := runGts(w, withNoCache(rs.Argv), spec)
	o := obs{Status: r.Status, Stdout: r.Stdout, Files: userFiles(w), Panic: r.Panic}
	x.res.SimOps += r.Ops
	x.refMemo[k] = o
	simos.W = x.w
	return o
}

func altChunks(c []int) []int {
	if len(c) == 0 {
		return []int{4093, 1, 17, 4096}
	}
	return nil
}

// referenceAgain repeats the reference run of a step on a fresh machine,
// bypassing the memo.
func (x *cliExec) referenceAgain(s *stepInfo) (obs, bool) {
	if s.refFiles == nil {
		return obs{}, false
	}
	saved := x.refMemo
	x.refMemo = map[string]obs{}
	o := x.reference(s.run, s.refFiles, s.refStdin)
	x.refMemo = saved
	return o, true
}

func filesDigestFull(m map[string][]byte) string {
	names := make([]string, 0, len(m))
	for n := range m {
		names = append(names, n)
	}
	sort.Strings(names)
	h := sha256.New()
	for _, n := range names {
		fmt.Fprintf(h, "%s:%d:", n, len(m[n]))
		h.Write(m[n])
	}
	return hex.EncodeToString(h.Sum(nil))
}

func (x *cliExec) cacheEntries() []string {
	d := x.w.CacheDir()
	if d == "" {
		return nil
	}
	return x.w.List(d)
}

func (x *cliExec) violate(class, sig, detail string, upto int) {
	c := x.sc.clone()
	c.Steps = c.Steps[:upto+1]
	x.vs = append(x.vs, core.Violation{Class: class, Signature: sig, Detail: detail, Scenario: x.wrap(c)})
}

// run executes the whole scenario.
func (x *cliExec) run() {
	sc := x.sc
	x.w = newCliWorld(sc.Env, os.Getenv("VERIF_DEBUG") != "")
	names := make([]string, 0, len(sc.Files))
	for n := range sc.Files {
		names = append(names, n)
	}
	sort.Strings(names)
	for _, n := range names {
		x.w.PutFile(n, sc.Files[n].bytes())
	}
	for i := range sc.Steps {
		st := sc.Steps[i]
		switch {
		case st.Edit != nil:
			if st.Edit.Edit.Op == "restore" {
				// the file gets back the content the scenario started with
				if f, ok := sc.Files[st.Edit.File]; ok {
					x.w.PutFile(st.Edit.File, f.bytes())
				}
			} else if d, ok := x.w.GetFile(st.Edit.File); ok {
				x.w.PutFile(st.Edit.File, st.Edit.Edit.apply(d))
			}
		case st.Disk != nil:
			x.applyDisk(st.Disk)
		case st.Par != nil:
			x.runPar(i, st.Par)
		case st.Run != nil:
			x.runStep(i, st.Run)
		}
	}
	x.res.SimOps += x.w.Stats.Ops
	for k, v := range x.w.Stats.FaultsFired {
		x.res.Faults[k] += v
	}
}

func (x *cliExec) applyDisk(d *diskStep) {
	ents := x.cacheEntries()
	if len(ents) == 0 {
		x.probe("disk_fault_without_entry")
		return
	}
	path := ents[d.Entry%len(ents)]
	cur, _ := x.w.GetFile(path)
	x.res.Faults["disk:"+d.Kind]++
	switch d.Kind {
	case "flip":
		if len(cur) > 0 {
			cur[d.At%len(cur)] ^= byte(d.Mask)
			x.w.PutFile(path, cur)
		}
	case "truncate":
		if len(cur) > 0 {
			x.w.PutFile(path, cur[:d.Len%len(cur)])
		}
	case "extend":
		x.w.PutFile(path, append(cur, tailBytes(&diskFault{Kind: "extend", Tail: d.Tail, Len: d.Len, Mask: d.Mask}, cur, 20)...))
	case "copyto":
		x.w.PutFile(ents[d.Other%len(ents)], cur)
	case "delete":
		x.w.DeleteFile(path)
	case "dir":
		x.w.DeleteFile(path)
		x.w.MkdirAllRaw(path)
	}
}

// specFor is the simulated process a run step asks for.
func specFor(rs *runStep, stdin []byte) simos.ProcSpec {
	spec := simos.ProcSpec{SinkLimit: -1, Faults: rs.Faults, PowerLoss: rs.PowerLoss, FifoChunks: rs.Chunks}
	if rs.SinkLimit != nil {
		spec.SinkLimit, spec.SinkErr = *rs.SinkLimit, rs.SinkErr
	}
	if rs.Stdin == "" {
		spec.Stdin.Tty = true
	} else {
		spec.Stdin.Data = stdin
		spec.Stdin.Chunks = rs.Chunks
		spec.Stdin.FailAt = rs.StdinFail
		if rs.StdinFile {
			spec.Stdin.File, spec.Stdin.Offset = rs.Stdin, int64(rs.StdinOffset)
		}
	}
	return spec
}

func (x *cliExec) runStep(i int, rs *runStep) {
	files := userFiles(x.w)
	var stdin []byte
	if rs.Stdin != "" {
		stdin = append([]byte(nil), files[simos.Clean(rs.Stdin)]...)
	}
	ref := x.reference(rs, files, stdin)
	spec := specFor(rs, stdin)
	for _, a := range rs.Argv {
		if strings.HasPrefix(a, cliFifo+"/") {
			x.probe("input_given_as_named_pipe")
			break
		}
	}
	for _, a := range rs.Argv {
		if strings.Contains(a, "\\x") {
			x.probe("option_value_with_bytes_that_are_not_utf8")
			break
		}
	}
	// something else on the machine acts while the process runs: another
	// program rewrites one of the user's files
	// - or another gts runs from start to end while this one is held at one
	// of its operations: it finds whatever this one has done to the cache
	// directory so far, and this one goes on with whatever the other left
	x.w.OnCall = func(arg string) {
		var ev outsideEvent
		if json.Unmarshal([]byte(arg), &ev) != nil {
			return
		}
		if ev.Nested != nil {
			if x.depth >= 2 {
				return
			}
			x.probe("invocation_ran_inside_another")
			resume := suspendProc(x.w)
			saved := x.w.OnCall
			x.depth++
			x.runStep(i, ev.Nested)
			x.depth--
			x.w.OnCall = saved
			resume()
			return
		}
		if d, ok := x.w.GetFile(ev.File); ok {
			x.w.PutFile(ev.File, ev.Edit.apply(append([]byte(nil), d...)))
		}
	}
	core.Current = x.sc
	core.Tick()
	r := runGts(x.w, rs.Argv, spec)
	x.w.OnCall = nil
	x.record(i, rs, r, ref, files, stdin)
}

// record notes what a finished process did and judges it.
func (x *cliExec) record(i int, rs *runStep, r procResult, ref obs, files map[string][]byte, stdin []byte) *stepInfo {
	real := obs{Status: r.Status, Stdout: r.Stdout, Files: userFiles(x.w), Killed: r.Killed, Panic: r.Panic}
	info := &stepInfo{idx: i, nested: x.depth > 0, run: rs, real: real, ref: ref, fired: r.Fired, trace: r.Trace, ops: r.Ops, refFiles: files, refStdin: stdin}
	h := sha256.New()
	h.Write(stdin)
	h.Write([]byte(filesDigestFull(files)))
	info.inputSig = hex.EncodeToString(h.Sum(nil))
	// what did the process do with the cache?
	opened := ""
	for _, o := range r.Trace {
		if o.Class != "cache" {
			continue
		}
		switch o.Kind {
		case "open":
			if strings.HasPrefix(o.Res, "fd") {
				opened = o.Path
			}
		case "create":
			if strings.HasPrefix(o.Res, "fd") {
				info.created = append(info.created, o.Path)
				opened = ""
			}
		case "rename":
			// an entry written aside takes its place: what was created under
			// the old name is this step's work under the new one
			if o.To != "" {
				for k, c := range info.created {
					if c == o.Path {
						info.created[k] = o.To
					}
				}
			}
		}
	}
	info.hit = opened
	if x.parallel {
		info.overlapped = true
		if len(rs.Argv) > 0 && rs.Argv[0] == "cache" {
			// `gts cache purge` beside running commands is part of their
			// history, but what it says when a file it listed is gone before
			// it gets to it is not part of the statement
			info.faulted = true
		}
	}
	for _, f := range r.Fired {
		if strings.HasPrefix(f, "overlap@") {
			// no fault: gts promises its users nothing less when two of them
			// (or two of one user's shells) work at the same time
			info.overlapped = true
			continue
		}
		if f != "sink_limit" {
			info.faulted = true
		}
	}
	if rs.PowerLoss != nil {
		info.faulted = true
	}
	x.steps = append(x.steps, info)
	x.observe(info)
	x.judge(info)
	for _, p := range info.created {
		x.creator[p] = len(x.steps) - 1
	}
	return info
}

// outcome names what the process did with the cache, read off its trace.
func (s *stepInfo) outcome() string {
	switch {
	case s.real.Killed:
		return "killed"
	case s.hit != "":
		return "hit"
	case len(s.created) > 0 && s.real.Status != 0:
		return "armed-failed"
	case len(s.created) > 0:
		return "miss-armed"
	}
	return "uncached"
}

func (x *cliExec) observe(s *stepInfo) {
	cmd := "?"
	if len(s.run.Argv) > 0 {
		cmd = s.run.Argv[0]
	}
	in := "tty"
	if s.run.Stdin != "" {
		in = "pipe"
	}
	sink := ""
	if s.run.SinkLimit != nil {
		sink = "|sink"
	}
	fk := ""
	if len(s.fired) > 0 {
		fk = "|" + s.fired[0]
	}
	x.key(fmt.Sprintf("%s|%s|opts=%s|%s|%s|st=%d%s%s", x.sc.Mode, cmd, optSig(s.run.Argv), in, s.outcome(), s.real.Status, sink, fk))
	switch s.outcome() {
	case "hit":
		x.probe("warm_hit_served")
		if hasOpt(s.run.Argv, "-o") {
			x.probe("hit_with_-o")
		}
	case "armed-failed":
		if len(s.real.Stdout) > 0 || s.real.Status != 0 {
			x.probe("failure_after_cache_writer_armed")
		}
	}
	for _, o := range s.trace {
		if o.Class == "tmp" && o.Kind == "create" {
			x.probe("stdin_spooled_to_temp_file")
			break
		}
	}
	sawOpen := false
	for _, o := range s.trace {
		if o.Class == "cache" && o.Kind == "open" && strings.HasPrefix(o.Res, "fd") {
			sawOpen = true
		}
		if o.Class == "cache" && o.Kind == "create" && sawOpen {
			x.probe("invalid_entry_rearmed")
			break
		}
	}
	if x.sc.Env.Cache != "ok" {
		x.probe("env_without_usable_cache")
	}
	if s.real.Panic != "" {
		x.probe("process_panicked")
	}
}

func hasOpt(argv []string, o string) bool {
	for _, a := range argv {
		if a == o {
			return true
		}
	}
	return false
}

// optSig is the sorted set of option flags in an argv.
func optSig(argv []string) string {
	var f []string
	for _, a := range argv[1:] {
		if strings.HasPrefix(a, "-") && len(a) > 1 && !isNumberLike(a) {
			f = append(f, a)
		}
	}
	sort.Strings(f)
	return strings.Join(f, ",")
}

func isNumberLike(s string) bool {
	return len(s) > 1 && s[0] == '-' && s[1] >= '0' && s[1] <= '9'
}

// judge applies the oracle of DESIGN.md §4 (and §3 for mode c13).
func (x *cliExec) judge(s *stepInfo) {
	x.res.Evaluations++
	same, what := sameObs(s.real, s.ref)
	if s.faulted {
		// A fault hit this very step: the statement does not relate it to the
		// reference. Tally what happened and move on.
		fk := "powerloss"
		if len(s.fired) > 0 {
			fk = s.fired[0]
		}
		k := "faulted-step:" + fk + ":"
		switch {
		case s.real.Killed:
			k += "killed"
		case same:
			k += "same-as-reference"
		case s.real.Status != 0 && s.ref.Status == 0:
			k += "failed-where-reference-succeeds"
		case s.real.Status == 0 && s.ref.Status == 0:
			k += "status0-different-bytes"
		default:
			k += "other-difference"
		}
		x.res.Extended[k]++
		for _, f := range s.fired {
			if strings.HasPrefix(f, "kill") || f == "sink_limit" || f == "powerloss" {
				continue
			}
			// Whatever I/O error a cache or temp file operation returned, gts
			// was told about it: later steps stay under the strict oracle.
			// (Round 1 tallied, without judging, what followed an error on
			// unlink, read, seek or listing; that hid a failed run whose entry
			// could not be unlinked and was finalised instead.)
			_ = f
		}
		return
	}
	if same {
		return
	}
	if x.sc.Mode == "c13" && x.lastFaultKind(s.idx) == "none" {
		// nothing has been done to the cache yet: a difference here is C14's
		x.res.Extended["c13-cli:first-run-differs-from-reference"]++
		return
	}
	class, sig := x.classify(s, what)
	if s.nested {
		class = "overlap:" + class + ":inner"
	} else if s.overlapped {
		class = "overlap:" + class + ":outer"
	}
	// Before blaming the cache: does the uncached run agree with itself? gts
	// iterates Go maps in a few places; if an ordering ever leaks into the
	// output, two reference runs differ and nothing about this step replays.
	if again, ok := x.referenceAgain(s); ok {
		if same2, what2 := sameObs(again, s.ref); !same2 {
			cmd := "?"
			if len(s.run.Argv) > 0 {
				cmd = s.run.Argv[0]
			}
			class, sig = "nondeterministic-output", cmd+":"+what2
		}
	}
	detail := fmt.Sprintf("step %d argv=%q stdin=%q differs from the --no-cache reference in %s: cached run %s, reference %s; cache outcome=%s",
		s.idx, s.run.Argv, s.run.Stdin, what, s.real.summary(), s.ref.summary(), s.outcome())
	if s.real.Panic != "" {
		detail += " panic=" + firstLine(s.real.Panic) + " at " + panicSite(s.real.Panic)
	}
	if x.tainted {
		// An I/O error was injected into a cache or temp file operation of an
		// earlier step; what that leaves behind is outside the statement.
		x.res.Extended["later-step-differs-after-cache-io-error:"+class]++
		return
	}
	x.violate(class, sig, detail, s.idx)
}

func (x *cliExec) classify(s *stepInfo, what string) (string, string) {
	cmd := "?"
	if len(s.run.Argv) > 0 {
		cmd = s.run.Argv[0]
	}
	if x.sc.Mode == "c13" {
		return "cli-served-corrupt", cmd + ":" + x.lastFaultKind(s.idx)
	}
	if s.run.StdinFail > 0 && s.real.Status != 0 && s.ref.Status != 0 {
		// both runs failed on the same read error; what had been written by then differs
		return "partial-output-before-stdin-error", what
	}
	if s.run.SinkLimit != nil {
		return "sink-prefix-mismatch", cmd + ":" + what
	}
	if s.hit != "" {
		ci, ok := x.creator[s.hit]
		if ok {
			c := x.steps[ci]
			how := "none"
			switch {
			case c.real.Killed:
				how = "kill"
			case c.real.Panic != "":
				how = "panic"
			case c.run.SinkLimit != nil && c.real.Status != 0:
				how = "sink"
			case c.real.Status != 0:
				how = "error"
			}
			if how != "none" {
				// the entry being served was written by a run that failed
				return "poisoned-after-failure", how
			}
			da := argvDiff(c.run.Argv, s.run.Argv)
			if da != "" {
				return "stale-hit", cmd + ":" + da
			}
			if c.inputSig != s.inputSig || c.run.Stdin != s.run.Stdin {
				return "stale-hit", cmd + ":input"
			}
			return "hit-differs-from-reference", cmd + ":" + what
		}
		return "hit-of-unknown-origin", cmd
	}
	if what == "status" {
		return "status-mismatch", cmd
	}
	return "output-mismatch-cold", cmd + ":" + what
}

func (x *cliExec) lastFaultKind(upto int) string {
	kind := "none"
	for i := 0; i < upto && i < len(x.sc.Steps); i++ {
		st := x.sc.Steps[i]
		if st.Disk != nil {
			kind = st.Disk.Kind
		}
		if st.Edit != nil && x.sc.Mode == "c13" {
			kind = "other-input"
		}
		if st.Run != nil {
			if len(st.Run.Faults) > 0 {
				kind = st.Run.Faults[0].Kind
				if kind != "kill" {
					kind = "io-error"
				}
			}
			if st.Run.PowerLoss != nil {
				kind = "powerloss"
			}
		}
	}
	return kind
}

// argvDiff names the tokens by which two argument lists differ (sorted,
// multiset difference), "" if they are identical.
func argvDiff(a, b []string) string {
	cnt := map[string]int{}
	for _, s := range a {
		cnt[s]++
	}
	for _, s := range b {
		cnt[s]--
	}
	var d []string
	for s, n := range cnt {
		if n != 0 {
			d = append(d, s)
		}
	}
	sort.Strings(d)
	if len(d) == 0 {
		if strings.Join(a, "\x00") != strings.Join(b, "\x00") {
			return "order"
		}
		return ""
	}
	if len(d) > 3 {
		d = append(d[:3], "…")
	}
	return strings.Join(d, " ")
}

func execCli(prop string, sc *cliScenario, res *core.Result, wrap func(*cliScenario) json.RawMessage) *cliExec {
	x := &cliExec{sc: sc, prop: prop, creator: map[string]int{}, res: res, refMemo: map[string]obs{}, wrap: wrap}
	if res.Probes == nil {
		res.Probes = map[string]int{}
	}
	if res.Faults == nil {
		res.Faults = map[string]int{}
	}
	if res.Extended == nil {
		res.Extended = map[string]int{}
	}
	x.run()
	return x
}

func cliReplay(prop string, sc *cliScenario, wrap func(*cliScenario) json.RawMessage) ([]core.Violation, string, error) {
	res := &core.Result{}
	x := execCli(prop, sc, res, wrap)
	if os.Getenv("VERIF_DEBUG") != "" {
		for _, l := range x.w.Log.Lines {
			fmt.Println("  sim:", l)
		}
	}
	return x.vs, x.w.Log.Digest(), nil
}

// cliCandidates proposes simpler histories.
func cliCandidates(sc *cliScenario) []*cliScenario {
	var out []*cliScenario
	n := len(sc.Steps)
	// drop a step (the last one carries the verdict)
	for i := 0; i < n-1; i++ {
		c := sc.clone()
		c.Steps = append(c.Steps[:i], c.Steps[i+1:]...)
		out = append(out, c)
	}
	for i, st := range sc.Steps {
		if st.Par == nil {
			continue
		}
		// fewer parties, a shorter schedule, no fault on a party
		for k := range st.Par.Runs {
			if len(st.Par.Runs) > 1 {
				c := sc.clone()
				pr := c.Steps[i].Par
				pr.Runs = append(pr.Runs[:k], pr.Runs[k+1:]...)
				var sch [][2]int
				for _, seg := range pr.Schedule {
					switch {
					case seg[0] == k:
					case seg[0] > k:
						sch = append(sch, [2]int{seg[0] - 1, seg[1]})
					default:
						sch = append(sch, seg)
					}
				}
				pr.Schedule = sch
				out = append(out, c)
			}
			if len(st.Par.Runs[k].Faults) > 0 || st.Par.Runs[k].SinkLimit != nil {
				c := sc.clone()
				c.Steps[i].Par.Runs[k].Faults, c.Steps[i].Par.Runs[k].SinkLimit, c.Steps[i].Par.Runs[k].SinkErr = nil, nil, ""
				out = append(out, c)
			}
		}
		for k := range st.Par.Schedule {
			c := sc.clone()
			pr := c.Steps[i].Par
			pr.Schedule = append(pr.Schedule[:k], pr.Schedule[k+1:]...)
			out = append(out, c)
		}
	}
	for i, st := range sc.Steps {
		if st.Run == nil {
			continue
		}
		if len(st.Run.Faults) > 0 {
			c := sc.clone()
			c.Steps[i].Run.Faults = nil
			out = append(out, c)
		}
		if len(st.Run.Chunks) > 0 {
			c := sc.clone()
			c.Steps[i].Run.Chunks = nil
			out = append(out, c)
		}
		if st.Run.SinkLimit != nil {
			c := sc.clone()
			c.Steps[i].Run.SinkLimit = nil
			c.Steps[i].Run.SinkErr = ""
			out = append(out, c)
		}
		if st.Run.StdinFile && st.Run.StdinOffset == 0 {
			c := sc.clone()
			c.Steps[i].Run.StdinFile = false
			out = append(out, c)
		}
		// drop one option token (switches only: a token starting with - whose successor also starts with - or is last-but-input)
		for j := 1; j < len(st.Run.Argv); j++ {
			a := st.Run.Argv[j]
			if strings.HasPrefix(a, "-") && !isNumberLike(a) {
				c := sc.clone()
				av := c.Steps[i].Run.Argv
				c.Steps[i].Run.Argv = append(append([]string(nil), av[:j]...), av[j+1:]...)
				out = append(out, c)
				if j+1 < len(av) {
					c2 := sc.clone()
					av2 := c2.Steps[i].Run.Argv
					c2.Steps[i].Run.Argv = append(append([]string(nil), av2[:j]...), av2[j+2:]...)
					out = append(out, c2)
				}
			}
		}
	}
	if sc.Env.Cache != "ok" || sc.Env.Tmp != "ok" {
		c := sc.clone()
		c.Env = cliEnv{Cache: "ok", Tmp: "ok"}
		out = append(out, c)
	}
	// smaller inputs
	for name, f := range sc.Files {
		if len(f.Parts) > 1 {
			for k := range f.Parts {
				c := sc.clone()
				nf := c.Files[name]
				nf.Parts = append(append([]string(nil), f.Parts[:k]...), f.Parts[k+1:]...)
				c.Files[name] = nf
				out = append(out, c)
			}
		}
		if len(f.Parts) == 1 && f.Parts[0] != "NC_001422_part.gb" && strings.HasSuffix(f.Parts[0], ".gb") {
			c := sc.clone()
			nf := c.Files[name]
			nf.Parts = []string{"NC_001422_part.gb"}
			c.Files[name] = nf
			out = append(out, c)
		}
		if len(f.Edits) > 0 {
			for k := range f.Edits {
				c := sc.clone()
				nf := c.Files[name]
				nf.Edits = append(append([]editSpec(nil), f.Edits[:k]...), f.Edits[k+1:]...)
				c.Files[name] = nf
				out = append(out, c)
			}
		}
	}
	// unused files
	for name := range sc.Files {
		used := false
		for _, st := range sc.Steps {
			if st.Run != nil {
				if st.Run.Stdin == name {
					used = true
				}
				for _, a := range st.Run.Argv {
					if a == name {
						used = true
					}
				}
			}
			if st.Edit != nil && st.Edit.File == name {
				used = true
			}
		}
		if !used {
			c := sc.clone()
			delete(c.Files, name)
			out = append(out, c)
		}
	}
	return out
}
