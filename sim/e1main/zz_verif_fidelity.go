package main

// selftest fidelity: fault-free histories are executed in the simulator and
// with the unmodified gts binary against a real scratch directory; stdout,
// exit status, user files and the cache directory image (names and bytes)
// must agree. A mismatch is a harness defect (exit 2), never a VIOLATION.

import (
	"bytes"
	"fmt"
	"io"
	realos "os"
	"os/exec"
	"path/filepath"
	"regexp"
	"sort"
	"strconv"
	"strings"
	"syscall"
	"unsafe"

	"github.com/go-gts/gts/internal/verifsim/core"
	"github.com/go-gts/gts/internal/verifsim/simos"
)

func init() { core.Extras["fidelity"] = fidelityMain }

func fidelityMain(args []string) int {
	if len(args) < 2 {
		fmt.Println("usage: fidelity <histories> <path to unmodified gts> [seed]")
		return 2
	}
	n, _ := strconv.Atoi(args[0])
	bin := args[1]
	seed := uint64(1)
	if len(args) > 2 {
		seed, _ = strconv.ParseUint(args[2], 10, 64)
	}
	steps, hits, ttySteps, fifoSteps := 0, 0, 0, 0
	for i := 0; i < n; i++ {
		r := core.NewRNG(core.Mix(seed, 0xf1de, uint64(i)))
		sc := genHistory(r, "quick")
		sc.Env = cliEnv{Cache: "ok", Tmp: "ok"}
		// steps whose stdin is a terminal get a pseudo-terminal when the machine
		// has one to give; otherwise they are turned into piped steps
		if !havePty() {
			for k := range sc.Steps {
				rs := sc.Steps[k].Run
				if rs == nil || len(rs.Argv) == 0 || rs.Argv[0] == "cache" || rs.Stdin != "" {
					continue
				}
				rs.Stdin = rs.Argv[len(rs.Argv)-1]
				rs.Argv = rs.Argv[:len(rs.Argv)-1]
			}
		}
		for k := range sc.Steps {
			if rs := sc.Steps[k].Run; rs != nil && rs.Stdin == "" {
				ttySteps++
			}
			if rs := sc.Steps[k].Run; rs != nil {
				for _, a := range rs.Argv {
					if strings.HasPrefix(a, cliFifo+"/") {
						fifoSteps++
						break
					}
				}
			}
		}
		res := &core.Result{}
		x := execCli("C14", sc, res, wrapC14)
		root, err := realos.MkdirTemp("", "verif-fid-")
		if err != nil {
			fmt.Println("SELFTEST-FAIL fidelity:", err)
			return 2
		}
		ok, msg, h := fidelityReal(sc, x, root, bin)
		realos.RemoveAll(root)
		steps += len(x.steps)
		hits += h
		if !ok {
			fmt.Printf("SELFTEST-FAIL fidelity history %d: %s\nscenario: %s\n", i, msg, wrapC14(sc))
			return 2
		}
	}
	fmt.Printf("selftest fidelity: pseudo-terminal available=%v, %d invocations ran with stdin on a terminal, %d read an input through a real named pipe\n", havePty(), ttySteps, fifoSteps)
	fmt.Printf("selftest fidelity: %d histories, %d invocations (%d served from the cache) agree between the simulator and the real binary (stdout, status, user files, cache directory image)\n", n, steps, hits)
	return 0
}

func mapPath(root, p string) string {
	if strings.HasPrefix(p, "/u/") || strings.HasPrefix(p, cliFifo+"/") {
		return root + p
	}
	return p
}

// realFifos creates a named pipe for every /fifo/x among the arguments whose
// source /u/x exists, with a feeder that writes the file into it once a
// reader shows up. The returned function releases feeders that never got a
// reader, waits for them and removes the pipes.
func realFifos(root string, argv []string) func() {
	var paths []string
	done := make(chan struct{}, len(argv))
	n := 0
	for _, a := range argv {
		if !strings.HasPrefix(a, cliFifo+"/") {
			continue
		}
		data, err := realos.ReadFile(root + "/u" + strings.TrimPrefix(a, cliFifo))
		if err != nil {
			continue
		}
		p := root + a
		realos.MkdirAll(filepath.Dir(p), 0755)
		realos.Remove(p)
		if syscall.Mkfifo(p, 0600) != nil {
			continue
		}
		paths = append(paths, p)
		n++
		go func() {
			defer func() { done <- struct{}{} }()
			f, err := realos.OpenFile(p, realos.O_WRONLY, 0)
			if err != nil {
				return
			}
			f.Write(data)
			f.Close()
		}()
	}
	return func() {
		for _, p := range paths {
			// a feeder still waiting for a reader is released by this open;
			// what it then writes is drained, or a file larger than the pipe
			// buffer would block it for good
			if f, err := realos.OpenFile(p, realos.O_RDONLY|syscall.O_NONBLOCK, 0); err == nil {
				defer f.Close()
				go io.Copy(io.Discard, f)
			}
		}
		for ; n > 0; n-- {
			<-done
		}
		for _, p := range paths {
			realos.Remove(p)
		}
	}
}

func fidelityReal(sc *cliScenario, x *cliExec, root, bin string) (bool, string, int) {
	for _, d := range []string{"/u", "/tmp", "/cache"} {
		realos.MkdirAll(root+d, 0755)
	}
	names := make([]string, 0, len(sc.Files))
	for n := range sc.Files {
		names = append(names, n)
	}
	sort.Strings(names)
	for _, n := range names {
		realos.MkdirAll(filepath.Dir(root+n), 0755)
		if err := realos.WriteFile(root+n, sc.Files[n].bytes(), 0644); err != nil {
			return false, fmt.Sprintf("cannot set up %s: %v", n, err), 0
		}
	}
	hits := 0
	si := 0
	for k, st := range sc.Steps {
		switch {
		case st.Edit != nil:
			p := root + st.Edit.File
			if d, err := realos.ReadFile(p); err == nil {
				realos.WriteFile(p, st.Edit.Edit.apply(d), 0644)
			}
		case st.Run != nil:
			info := x.steps[si]
			si++
			argv := make([]string, len(st.Run.Argv))
			for i, a := range rawArgv(st.Run.Argv) {
				argv[i] = mapPath(root, a)
			}
			cmd := exec.Command(bin, argv...)
			cmd.Dir = root + "/u"
			cmd.Env = []string{"XDG_CACHE_HOME=" + root + "/cache", "TMPDIR=" + root + "/tmp", "PATH=/usr/bin:/bin"}
			if st.Run.Stdin != "" && st.Run.StdinFile {
				// gts < file, with the descriptor already advanced by the caller
				f, err := realos.Open(root + st.Run.Stdin)
				if err != nil {
					return false, fmt.Sprintf("step %d: %v", k, err), hits
				}
				f.Seek(int64(st.Run.StdinOffset), 0)
				cmd.Stdin = f
				defer f.Close()
			} else if st.Run.Stdin != "" {
				d, _ := realos.ReadFile(root + st.Run.Stdin)
				cmd.Stdin = bytes.NewReader(d)
			} else if m, sl, err := openPty(); err == nil {
				// stdin is a terminal nobody types on
				cmd.Stdin = sl
				defer m.Close()
				defer sl.Close()
			} else {
				cmd.Stdin = bytes.NewReader(nil)
			}
			var out bytes.Buffer
			cmd.Stdout = &out
			release := realFifos(root, st.Run.Argv)
			err := cmd.Run()
			release()
			status := 0
			if ee, ok := err.(*exec.ExitError); ok {
				status = ee.ExitCode()
			} else if err != nil {
				return false, fmt.Sprintf("step %d: cannot run the real binary: %v", k, err), hits
			}
			if status != info.real.Status {
				return false, fmt.Sprintf("step %d argv=%q: exit status real %d, simulated %d", k, st.Run.Argv, status, info.real.Status), hits
			}
			if !bytes.Equal(out.Bytes(), info.real.Stdout) {
				return false, fmt.Sprintf("step %d argv=%q: stdout differs: real %d bytes, simulated %d bytes", k, st.Run.Argv, out.Len(), len(info.real.Stdout)), hits
			}
			if info.hit != "" {
				hits++
			}
		}
	}
	// user files and cache image at the end of the history
	realFiles := map[string][]byte{}
	filepath.Walk(root, func(p string, fi realos.FileInfo, err error) error {
		if err == nil && !fi.IsDir() {
			b, _ := realos.ReadFile(p)
			realFiles[strings.TrimPrefix(p, root)] = b
		}
		return nil
	})
	simFiles := map[string][]byte{}
	for _, p := range x.w.List("/") {
		d, _ := x.w.GetFile(p)
		switch {
		case strings.HasPrefix(p, "/u/"):
			simFiles[p] = d
		case strings.HasPrefix(p, cliCacheHome+"/"):
			simFiles["/cache"+strings.TrimPrefix(p, cliCacheHome)] = d
		case strings.HasPrefix(p, cliTmp+"/"):
			simFiles["/tmp-leftover"] = nil
		}
	}
	for p := range realFiles {
		if strings.HasPrefix(p, "/tmp/") {
			delete(realFiles, p)
			realFiles["/tmp-leftover"] = nil
		}
	}
	// what a run that died left beside the entries has a random suffix on the
	// real disk and a counter in the simulator
	tmpName := regexp.MustCompile(`\.tmp-[0-9]+$`)
	var a, b []string
	for p, d := range realFiles {
		a = append(a, fmt.Sprintf("%s:%d:%x", tmpName.ReplaceAllString(p, ".tmp-N"), len(d), sha(d)))
	}
	for p, d := range simFiles {
		b = append(b, fmt.Sprintf("%s:%d:%x", tmpName.ReplaceAllString(p, ".tmp-N"), len(d), sha(d)))
	}
	sort.Strings(a)
	sort.Strings(b)
	if strings.Join(a, "\n") != strings.Join(b, "\n") {
		return false, fmt.Sprintf("final disk images differ:\nreal:\n%s\nsimulated:\n%s", strings.Join(a, "\n"), strings.Join(b, "\n")), hits
	}
	return true, "", hits
}

func sha(b []byte) []byte {
	h := newHashByName("sha256")
	h.Write(b)
	return h.Sum(nil)[:8]
}

// openPty returns the two ends of a fresh pseudo-terminal.
func openPty() (master, slave *realos.File, err error) {
	master, err = realos.OpenFile("/dev/ptmx", realos.O_RDWR|syscall.O_NOCTTY, 0)
	if err != nil {
		return nil, nil, err
	}
	var unlock int32
	if _, _, e := syscall.Syscall(syscall.SYS_IOCTL, master.Fd(), syscall.TIOCSPTLCK, uintptr(unsafe.Pointer(&unlock))); e != 0 {
		master.Close()
		return nil, nil, e
	}
	var n uint32
	if _, _, e := syscall.Syscall(syscall.SYS_IOCTL, master.Fd(), syscall.TIOCGPTN, uintptr(unsafe.Pointer(&n))); e != 0 {
		master.Close()
		return nil, nil, e
	}
	slave, err = realos.OpenFile(fmt.Sprintf("/dev/pts/%d", n), realos.O_RDWR|syscall.O_NOCTTY, 0)
	if err != nil {
		master.Close()
		return nil, nil, err
	}
	return master, slave, nil
}

var ptyState int

func havePty() bool {
	if ptyState == 0 {
		ptyState = -1
		if m, s, err := openPty(); err == nil {
			m.Close()
			s.Close()
			ptyState = 1
		}
	}
	return ptyState == 1
}

// ---- trace validation ----
//
// selftest tracecheck: the unmodified binary runs under strace and the
// sequence of system calls it makes on cache and temp files is compared,
// call by call, with the simulator's operation trace for the same step. The
// simulator places faults by operation index; this is what shows that an
// index means the same point in the real program.

func init() { core.Extras["tracecheck"] = traceCheckMain }

type normOp struct {
	Kind string // create | open | read | write | seek | close | remove
	Area string // cache | tmp
	N    string // bytes moved, resulting offset, or ok / err
}

func simNorm(trace []simos.OpRec) []normOp {
	var out []normOp
	for _, o := range trace {
		if o.Class != "cache" && o.Class != "tmp" {
			continue
		}
		n := o.Res
		switch o.Kind {
		case "create", "open":
			if strings.HasPrefix(o.Res, "fd") {
				n = "ok"
			} else {
				n = "err"
			}
		case "read":
			if o.Res == "EOF" {
				n = "0"
			}
		case "close", "remove":
			if o.Res == "ok" || o.Res == "0" || o.Res == "" {
				n = "ok"
			}
		case "rename":
			n = "err"
			if strings.HasPrefix(o.Res, "->") || o.Res == "ok" {
				n = "ok"
			}
		case "mkdirall", "stat", "readdir", "usercachedir", "tempdir":
			continue
		}
		out = append(out, normOp{o.Kind, o.Class, n})
	}
	return out
}

var straceLine = regexp.MustCompile(`^(\d+)\s+(\w+)\((.*)\)\s+=\s+(-?\d+)(.*)$`)

func realNorm(path, root string) ([]normOp, error) {
	data, err := realos.ReadFile(path)
	if err != nil {
		return nil, err
	}
	pending := map[string]string{}
	var out []normOp
	area := func(s string) string {
		switch {
		case strings.Contains(s, root+"/cache/gts-cache/"):
			return "cache"
		case strings.Contains(s, root+"/tmp/"):
			return "tmp"
		}
		return ""
	}
	for _, line := range strings.Split(string(data), "\n") {
		if i := strings.Index(line, " <unfinished ...>"); i >= 0 {
			f := strings.Fields(line)
			if len(f) > 0 {
				pending[f[0]] = line[:i]
			}
			continue
		}
		if i := strings.Index(line, "<... "); i >= 0 {
			f := strings.Fields(line)
			if j := strings.Index(line, " resumed>"); j >= 0 && len(f) > 0 {
				line = pending[f[0]] + line[j+len(" resumed>"):]
				delete(pending, f[0])
			}
		}
		m := straceLine.FindStringSubmatch(line)
		if m == nil {
			continue
		}
		call, args, ret := m[2], m[3], m[4]
		a := area(args)
		if a == "" {
			continue
		}
		okErr := "ok"
		if strings.HasPrefix(ret, "-") {
			okErr = "err"
		}
		switch call {
		case "openat":
			if strings.Contains(args, "O_DIRECTORY") {
				continue
			}
			k := "open"
			if strings.Contains(args, "O_CREAT") {
				k = "create"
			}
			out = append(out, normOp{k, a, okErr})
		case "read", "write":
			out = append(out, normOp{call, a, ret})
		case "copy_file_range", "sendfile":
			// io.Copy between two files lets the kernel move the bytes: to
			// the program it is a write of that many bytes
			if ret != "0" && okErr == "ok" {
				out = append(out, normOp{"write", a, ret})
			}
		case "lseek":
			out = append(out, normOp{"seek", a, ret})
		case "close":
			out = append(out, normOp{"close", a, okErr})
		case "rename", "renameat", "renameat2":
			out = append(out, normOp{"rename", a, okErr})
		case "unlinkat":
			if strings.Contains(args, "AT_REMOVEDIR") {
				continue // os.Remove falls back to rmdir after a failed unlink
			}
			out = append(out, normOp{"remove", a, okErr})
		}
	}
	return out, nil
}

func mergeSpoolWrites(ops []normOp) []normOp {
	var out []normOp
	for _, o := range ops {
		if n := len(out); n > 0 && o.Kind == "write" && o.Area == "tmp" && out[n-1].Kind == "write" && out[n-1].Area == "tmp" {
			a, _ := strconv.Atoi(out[n-1].N)
			b, _ := strconv.Atoi(o.N)
			out[n-1].N = strconv.Itoa(a + b)
			continue
		}
		out = append(out, o)
	}
	return out
}

func traceCheckMain(args []string) int {
	if len(args) < 2 {
		fmt.Println("usage: tracecheck <histories> <path to unmodified gts> [seed]")
		return 2
	}
	n, _ := strconv.Atoi(args[0])
	bin := args[1]
	seed := uint64(1)
	if len(args) > 2 {
		seed, _ = strconv.ParseUint(args[2], 10, 64)
	}
	if _, err := exec.LookPath("strace"); err != nil {
		fmt.Println("selftest tracecheck: strace not available, skipped")
		return 0
	}
	steps, calls := 0, 0
	for i := 0; i < n; i++ {
		r := core.NewRNG(core.Mix(seed, 0x7ace, uint64(i)))
		sc := genHistory(r, "quick")
		sc.Env = cliEnv{Cache: "ok", Tmp: "ok"}
		// stdin as a pipe or a redirected file; the terminal form needs no
		// second validation here
		for k := range sc.Steps {
			rs := sc.Steps[k].Run
			if rs == nil || len(rs.Argv) == 0 || rs.Argv[0] == "cache" || rs.Stdin != "" {
				continue
			}
			last := rs.Argv[len(rs.Argv)-1]
			if strings.HasPrefix(last, "/u/") {
				rs.Stdin = last
				rs.Argv = rs.Argv[:len(rs.Argv)-1]
			}
		}
		res := &core.Result{}
		x := execCli("C14", sc, res, wrapC14)
		root, err := realos.MkdirTemp("", "verif-trc-")
		if err != nil {
			fmt.Println("SELFTEST-FAIL tracecheck:", err)
			return 2
		}
		ok, msg, s, c := traceReal(sc, x, root, bin)
		realos.RemoveAll(root)
		steps += s
		calls += c
		if !ok {
			fmt.Printf("SELFTEST-FAIL tracecheck history %d: %s\nscenario: %s\n", i, msg, wrapC14(sc))
			return 2
		}
	}
	fmt.Printf("selftest tracecheck: %d histories, %d invocations: the %d system calls the real binary made on cache and temp files (openat, read, write, lseek, close, unlinkat, rename) are the simulator's operations, in the same order with the same byte counts and offsets\n", n, steps, calls)
	return 0
}

func traceReal(sc *cliScenario, x *cliExec, root, bin string) (bool, string, int, int) {
	for _, d := range []string{"/u", "/tmp", "/cache"} {
		realos.MkdirAll(root+d, 0755)
	}
	names := make([]string, 0, len(sc.Files))
	for n := range sc.Files {
		names = append(names, n)
	}
	sort.Strings(names)
	for _, n := range names {
		realos.MkdirAll(filepath.Dir(root+n), 0755)
		realos.WriteFile(root+n, sc.Files[n].bytes(), 0644)
	}
	si, steps, calls := 0, 0, 0
	for k, st := range sc.Steps {
		switch {
		case st.Edit != nil:
			p := root + st.Edit.File
			if d, err := realos.ReadFile(p); err == nil {
				realos.WriteFile(p, st.Edit.Edit.apply(d), 0644)
			}
		case st.Run != nil:
			info := x.steps[si]
			si++
			raw := rawArgv(st.Run.Argv)
			argv := []string{"-f", "-y", "-e", "trace=openat,read,write,lseek,close,unlinkat,rename,renameat,renameat2,copy_file_range,sendfile", "-o", root + "/strace.out", bin}
			for _, a := range raw {
				argv = append(argv, mapPath(root, a))
			}
			cmd := exec.Command("strace", argv...)
			cmd.Dir = root + "/u"
			cmd.Env = []string{"XDG_CACHE_HOME=" + root + "/cache", "TMPDIR=" + root + "/tmp", "PATH=/usr/bin:/bin"}
			if st.Run.Stdin != "" && st.Run.StdinFile {
				f, err := realos.Open(root + st.Run.Stdin)
				if err != nil {
					return false, fmt.Sprintf("step %d: %v", k, err), steps, calls
				}
				f.Seek(int64(st.Run.StdinOffset), 0)
				cmd.Stdin = f
				defer f.Close()
			} else if st.Run.Stdin != "" {
				d, _ := realos.ReadFile(root + st.Run.Stdin)
				cmd.Stdin = bytes.NewReader(d)
			} else {
				cmd.Stdin = bytes.NewReader(nil)
			}
			var out bytes.Buffer
			cmd.Stdout = &out
			release := realFifos(root, st.Run.Argv)
			cmd.Run()
			release()
			if st.Run.Stdin == "" && len(st.Run.Argv) > 0 && st.Run.Argv[0] != "cache" {
				continue // ran without a terminal although the simulated step had one: not comparable
			}
			real, err := realNorm(root+"/strace.out", root)
			if err != nil {
				return false, fmt.Sprintf("step %d: no strace output: %v", k, err), steps, calls
			}
			// how a pipe cuts standard input into reads is the one thing that
			// legitimately differs: the writes that spool it to the temp file
			// are compared by their total
			real, sim := mergeSpoolWrites(real), mergeSpoolWrites(simNorm(info.trace))
			steps++
			calls += len(real)
			if len(real) != len(sim) {
				return false, fmt.Sprintf("step %d argv=%q: the real binary made %d calls on cache/temp files, the simulator %d operations\nreal: %v\nsim:  %v", k, st.Run.Argv, len(real), len(sim), real, sim), steps, calls
			}
			for j := range real {
				if real[j] != sim[j] {
					return false, fmt.Sprintf("step %d argv=%q: call %d differs: real %v, simulated %v\nreal: %v\nsim:  %v", k, st.Run.Argv, j, real[j], sim[j], real, sim), steps, calls
				}
			}
		}
	}
	return true, "", steps, calls
}
