package main

// Invocations at the same time. A history of the property is a sequence of
// invocations "sharing the cache directory"; on a real machine two shells, a
// script started twice or `make -j` make some of them overlap. A parStep runs
// several gts processes on ONE simulated machine at once: each is the real
// main of cmd/gts on its own goroutine, a goroutine only ever runs between two
// calls of the scheduler hook at the start of a simulated I/O operation, and
// at every hand-over the package-level state of the process that is set
// aside (variables of cmd/gts, standard streams, arguments, qualifier
// registries) is swapped for that of the one that goes on - so exactly one
// process runs at any time and a schedule (party, number of operations) is
// one exactly repeatable interleaving. A process that is not granted
// operations is one that waits for its reader (`gts x | less`) or for the CPU.
//
// Every party is judged like any other step: its output and status equal the
// --no-cache run of the same argv. So is every later step of the history.

import (
	"fmt"
	"github.com/go-gts/gts/internal/verifsim/core"
	"github.com/go-gts/gts/internal/verifsim/simos"
)

type parStep struct {
	Runs []*runStep `json:"runs"`
	// Schedule: (party, n) pairs: party is granted n operations. When the
	// list is used up the parties that are left run to their end one after
	// the other, in order.
	Schedule [][2]int `json:"schedule"`
}

type parEvent struct {
	party int
	done  bool
}

func (x *cliExec) runPar(i int, ps *parStep) {
	n := len(ps.Runs)
	if n == 0 {
		return
	}
	files := userFiles(x.w)
	stdins := make([][]byte, n)
	refs := make([]obs, n)
	for k, rs := range ps.Runs {
		if rs.Stdin != "" {
			stdins[k] = append([]byte(nil), files[simos.Clean(rs.Stdin)]...)
		}
		refs[k] = x.reference(rs, files, stdins[k])
	}
	x.probe("invocations_at_the_same_time")
	core.Current = x.sc
	procs := make([]*simos.Proc, n)
	ctx := make([]func(), n)
	results := make([]procResult, n)
	resume := make([]chan struct{}, n)
	events := make(chan parEvent)
	index := map[*simos.Proc]int{}
	x.w.OnCall = nil
	for k, rs := range ps.Runs {
		procs[k] = startGts(x.w, rs.Argv, specFor(rs, stdins[k]))
		index[procs[k]] = k
		ctx[k] = suspendProc(x.w)
		resume[k] = make(chan struct{})
	}
	x.w.Sched = func(p *simos.Proc) {
		k, ok := index[p]
		if !ok {
			return
		}
		ctx[k] = suspendProc(x.w)
		events <- parEvent{k, false}
		<-resume[k]
		ctx[k]()
	}
	for k := range ps.Runs {
		k := k
		go func() {
			<-resume[k]
			ctx[k]()
			// the end of a process (its descriptors are closed) is part of its turn
			results[k] = endGts(x.w, procs[k], gtsBody(procs[k]))
			events <- parEvent{k, true}
		}()
	}
	alive := make([]bool, n)
	grant := func(k int) {
		core.Tick()
		resume[k] <- struct{}{}
		if ev := <-events; ev.done {
			alive[k] = false
		}
	}
	// every party first runs up to its first operation
	for k := 0; k < n; k++ {
		alive[k] = true
		grant(k)
	}
	// the interleaving reached, as a state key: who was set aside behind which
	// kind of operation on which class of file, for the first switches
	shape, switches := "", 0
	for _, seg := range ps.Schedule {
		k := ((seg[0] % n) + n) % n
		ran := false
		for c := 0; c < seg[1] && alive[k]; c++ {
			grant(k)
			ran = true
		}
		if ran && switches < 8 {
			if tr := procs[k].Trace; len(tr) > 0 {
				last := tr[len(tr)-1]
				if !alive[k] {
					shape += fmt.Sprintf("%d:end ", k)
				} else {
					shape += fmt.Sprintf("%d:%s/%s ", k, last.Kind, last.Class)
				}
				switches++
			}
		}
	}
	cmd0 := "?"
	if len(ps.Runs[0].Argv) > 0 {
		cmd0 = ps.Runs[0].Argv[0]
	}
	x.key(fmt.Sprintf("par|%s|n=%d|%s", cmd0, n, shape))
	for k := 0; k < n; k++ {
		for alive[k] {
			grant(k)
		}
	}
	x.w.Sched = nil
	simos.W = x.w
	x.parallel = true
	for k, rs := range ps.Runs {
		x.record(i, rs, results[k], refs[k], files, stdins[k])
	}
	x.parallel = false
}
