package main

import (
	"github.com/go-gts/gts/internal/verifsim/core"
)

func main() {
	snapshotRegistries()
	core.Main("e1", map[string]core.PropEngine{
		"C13": c13Engine{},
		"C14": c14Engine{},
	})
}
