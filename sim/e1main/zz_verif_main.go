package main

import (
	realos "os"

	"github.com/go-gts/gts/internal/verifsim/core"
)

func main() {
	snapshotRegistries()
	if len(realos.Args) > 1 && realos.Args[1] != "one" {
		// error text printed by flags.Run of simulated processes
		if f, err := realos.OpenFile("/dev/null", realos.O_WRONLY, 0); err == nil {
			realos.Stderr = f
		}
	}
	core.Main("e1", map[string]core.PropEngine{
		"C01": c01CliEngine{},
		"C13": c13Engine{},
		"C14": c14Engine{},
	})
}
