package main

// The CLI family of C01: "gts CLI stdout piped into gts CLI stdin" is one of
// the property's observation points. A simulated producer process runs a real
// gts subcommand on a valid input; its stdout is the stdin (a simulated pipe
// with a seeded chunk schedule) of a simulated consumer process running
// `gts pick 1-`, which reads every record and writes it unchanged. Oracles:
// (CL1) whatever the producer wrote with exit status 0 is accepted by the
// consumer (exit status 0); (CL2) the consumer's output equals its input byte
// for byte (write-read-write through the command-line path, including the
// buffered writer, the cache tee and the stdin spool); (CL3) the consumer's
// output does not depend on the chunk schedule of the pipe.

import (
	"bytes"
	"encoding/json"
	"fmt"
	"strings"

	"github.com/go-gts/gts/internal/verifsim/core"
	"github.com/go-gts/gts/internal/verifsim/simos"
)

type c01CliScenario struct {
	Files     map[string]fileSpec `json:"files"`
	Producer  runStep             `json:"producer"`
	Cache     bool                `json:"cache"` // run both processes with the cache enabled
	Chunks    []int               `json:"chunks,omitempty"`
	AltChunks []int               `json:"alt_chunks,omitempty"`
}

type c01CliEngine struct{}

var lastC01CliDigest string

func (c01CliEngine) Meta() core.Meta {
	return core.Meta{
		Property: "C01",
		Level:    "exploration",
		Rule: "CLI family of C01: a simulated producer process runs a seeded invocation of one of the 17 sequence-writing subcommands on a valid corpus input (options, " +
			"positionals, -F, pipe or path, cache on or off as in the C14 generator); its stdout is piped, under a seeded chunk schedule, into a simulated consumer " +
			"process running `gts pick 1-`. CL1 producer exit 0 implies consumer exit 0; CL2 consumer output == consumer input, byte for byte; CL3 the same under a " +
			"second chunk schedule. A case is one producer/consumer pair; it is non-trivial when its state key is new.",
		StateRule:   "distinct (producer subcommand, option-flag set, output format, cache on/off, chunk class, producer status)",
		Assumptions: []string{"table-writing subcommands (query, summary) are not producers: their output is not sequence data", "a producer that fails (status != 0) or writes nothing is not judged"},
		Real:        []string{"cmd/gts main, command functions, ioDelegate, TryCache", "seqio scanner and writers", "cmd/cache"},
		Stub:        []string{"package os etc. (the simulator)", "the pipe between the two processes (chunk schedule)"},
	}
}

func (c01CliEngine) Runs(tier string) int {
	if tier == "thorough" {
		return 60000
	}
	return 3000
}

func (c01CliEngine) exec(sc *c01CliScenario, res *core.Result) []core.Violation {
	var vs []core.Violation
	defer func() {
		if simos.W != nil {
			lastC01CliDigest = simos.W.Log.Digest()
		}
	}()
	violate := func(class, sig, detail string) {
		b, _ := json.Marshal(sc)
		vs = append(vs, core.Violation{Class: class, Signature: sig, Detail: detail, Scenario: b})
	}
	w := newCliWorld(cliEnv{Cache: "ok", Tmp: "ok"}, false)
	for n, f := range sc.Files {
		w.PutFile(n, f.bytes())
	}
	argv := func(a []string) []string {
		if sc.Cache {
			return a
		}
		return withNoCache(a)
	}
	core.Current, core.CurrentSig = sc, "c01cli"
	core.Tick()
	spec := simos.ProcSpec{SinkLimit: -1}
	if sc.Producer.Stdin == "" {
		spec.Stdin.Tty = true
	} else {
		d, _ := w.GetFile(sc.Producer.Stdin)
		spec.Stdin.Data, spec.Stdin.Chunks = d, sc.Producer.Chunks
	}
	p1 := runGts(w, argv(sc.Producer.Argv), spec)
	res.SimOps += p1.Ops
	cmd := sc.Producer.Argv[0]
	format := "as-input"
	for i, a := range sc.Producer.Argv {
		if a == "-F" && i+1 < len(sc.Producer.Argv) {
			format = sc.Producer.Argv[i+1]
		}
	}
	key := fmt.Sprintf("c01cli|%s|opts=%s|F=%s|cache=%v|chunks=%s|st=%d", cmd, optSig(sc.Producer.Argv), format, sc.Cache, chunkClassOf(sc.Chunks), p1.Status)
	res.Keys = append(res.Keys, key)
	if p1.Panic != "" {
		res.Extended["producer-panicked:"+cmd+":"+panicSite(p1.Panic)]++
		return vs
	}
	if p1.Status != 0 || len(p1.Stdout) == 0 {
		res.Extended["producer-not-judged:status-or-empty"]++
		return vs
	}
	consume := func(chunks []int) procResult {
		core.Tick()
		r := runGts(w, argv([]string{"pick", "1-"}), simos.ProcSpec{SinkLimit: -1, Stdin: simos.StdinSpec{Data: p1.Stdout, Chunks: chunks}})
		res.SimOps += r.Ops
		res.Evaluations++
		return r
	}
	p2 := consume(sc.Chunks)
	if p2.Panic != "" {
		violate("panic", panicSite(p2.Panic), fmt.Sprintf("gts pick 1- panicked on the output of gts %s: %s", strings.Join(sc.Producer.Argv, " "), firstLine(p2.Panic)))
		return vs
	}
	if p2.Status != 0 {
		violate("closure", "cli:"+cmd, fmt.Sprintf("gts %s exited 0 and wrote %d bytes; gts pick 1- on those bytes exits %d", strings.Join(sc.Producer.Argv, " "), len(p1.Stdout), p2.Status))
		return vs
	}
	if !bytes.Equal(p2.Stdout, p1.Stdout) {
		violate("fixed-point", "cli:"+cmd, fmt.Sprintf("gts %s | gts pick 1-: the consumer wrote %d bytes for %d bytes read; first difference at byte %d", strings.Join(sc.Producer.Argv, " "), len(p2.Stdout), len(p1.Stdout), firstDiffAt(p1.Stdout, p2.Stdout)))
	}
	p3 := consume(sc.AltChunks)
	if p3.Status != p2.Status || !bytes.Equal(p3.Stdout, p2.Stdout) {
		violate("chunk-variance", "cli:"+cmd, fmt.Sprintf("gts pick 1- on the output of gts %s gives status %d / %d bytes under chunks %v and status %d / %d bytes under %v", strings.Join(sc.Producer.Argv, " "), p2.Status, len(p2.Stdout), sc.Chunks, p3.Status, len(p3.Stdout), sc.AltChunks))
	}
	return vs
}

func firstDiffAt(a, b []byte) int {
	for i := 0; i < len(a) && i < len(b); i++ {
		if a[i] != b[i] {
			return i
		}
	}
	return minInt(len(a), len(b))
}

func chunkClassOf(c []int) string {
	switch {
	case len(c) == 0:
		return "all-in-one"
	case len(c) == 1 && c[0] == 1:
		return "1-byte"
	case len(c) == 1:
		return "fixed"
	}
	return "mixed"
}

func (e c01CliEngine) RunSeed(tier string, seed uint64, idx int) *core.Result {
	r := core.NewRNG(seed)
	res := &core.Result{Seed: seed, Probes: map[string]int{}, Faults: map[string]int{}, Extended: map[string]int{}}
	var iv invocation
	for {
		iv = genInvocation(r, "")
		if tableOut[iv.Cmd] || iv.Out != "" || iv.Redirect {
			continue
		}
		break
	}
	iv.Input = pickS(r, goodInputs)
	sc := &c01CliScenario{Files: map[string]fileSpec{}, Cache: r.Chance(1, 2), Chunks: genChunks(r), AltChunks: genChunks(r)}
	st := iv.step(r)
	sc.Producer = *st
	tmp := &cliScenario{Files: sc.Files}
	addFiles(tmp, st)
	vs := e.exec(sc, res)
	res.Violations = vs
	b, _ := json.Marshal(struct {
		K []string
		V []core.Violation
		E int
	}{res.Keys, vs, res.Evaluations})
	h := newHashByName("sha256")
	h.Write(b)
	res.Digest = fmt.Sprintf("%x", h.Sum(nil))
	if idx%300 == 0 {
		res.Sample, _ = json.Marshal(sc)
	}
	return res
}

func (e c01CliEngine) Replay(raw json.RawMessage) ([]core.Violation, string, error) {
	var sc c01CliScenario
	if err := json.Unmarshal(raw, &sc); err != nil {
		return nil, "", err
	}
	res := &core.Result{Probes: map[string]int{}, Faults: map[string]int{}, Extended: map[string]int{}}
	vs := e.exec(&sc, res)
	return vs, lastC01CliDigest, nil
}

func (c01CliEngine) Candidates(raw json.RawMessage) []json.RawMessage {
	var sc c01CliScenario
	if json.Unmarshal(raw, &sc) != nil {
		return nil
	}
	var out []json.RawMessage
	emit := func(c c01CliScenario) {
		b, _ := json.Marshal(c)
		out = append(out, b)
	}
	cl := func() c01CliScenario {
		b, _ := json.Marshal(sc)
		var c c01CliScenario
		json.Unmarshal(b, &c)
		return c
	}
	if sc.Cache {
		c := cl()
		c.Cache = false
		emit(c)
	}
	for _, f := range []func(*c01CliScenario){func(c *c01CliScenario) { c.Chunks = nil }, func(c *c01CliScenario) { c.AltChunks = nil }, func(c *c01CliScenario) { c.Producer.Chunks = nil }} {
		c := cl()
		f(&c)
		emit(c)
	}
	av := sc.Producer.Argv
	for j := 1; j < len(av); j++ {
		if strings.HasPrefix(av[j], "-") && !isNumberLike(av[j]) {
			c := cl()
			c.Producer.Argv = append(append([]string(nil), av[:j]...), av[j+1:]...)
			emit(c)
			if j+1 < len(av) {
				c := cl()
				c.Producer.Argv = append(append([]string(nil), av[:j]...), av[j+2:]...)
				emit(c)
			}
		}
	}
	return out
}
