package main

// This file is copied into the scratch copy of cmd/gts by tools/build.sh. It
// gives the simulator a way to start "a gts process" in this address space:
// the real command functions registered by the real init() functions, run
// against the simos world.

import (
	"fmt"
	realos "os"
	"runtime/debug"
	"strconv"
	"strings"

	"github.com/go-gts/gts/internal/verifsim/simos"
	"github.com/go-gts/gts/seqio"
)

var regSnapshot [3][]string

func snapshotRegistries() {
	regSnapshot[0] = append([]string(nil), seqio.QuotedQualifierNames...)
	regSnapshot[1] = append([]string(nil), seqio.LiteralQualifierNames...)
	regSnapshot[2] = append([]string(nil), seqio.ToggleQualifierNames...)
}

// resetProcessGlobals gives the next simulated process the state a freshly
// exec'ed gts has.
func resetProcessGlobals() {
	seqio.QuotedQualifierNames = append([]string(nil), regSnapshot[0]...)
	seqio.LiteralQualifierNames = append([]string(nil), regSnapshot[1]...)
	seqio.ToggleQualifierNames = append([]string(nil), regSnapshot[2]...)
}

// procResult is what the outside world can see of a finished process.
type procResult struct {
	Status int
	Stdout []byte
	Stderr []byte
	Killed bool
	Panic  string
	Ops    int
	Trace  []simos.OpRec
	Fired  []string
}

// runGts runs one gts invocation as a simulated process on w by calling the
// real main function of cmd/gts. flags.Run (a dependency, not rewritten) takes
// its arguments from the real os.Args, which is set here, and prints error
// text to the real stderr, which main() of the driver points at /dev/null;
// stderr text is not part of any oracle.
// rawArgv turns the escape \xHH (four characters) inside scenario tokens into
// the byte it names: command-line arguments are byte strings, not text, and a
// scenario file (JSON) cannot hold bytes that are not UTF-8.
func rawArgv(argv []string) []string {
	out := make([]string, len(argv))
	for i, a := range argv {
		if !strings.Contains(a, "\\x") {
			out[i] = a
			continue
		}
		var b []byte
		for k := 0; k < len(a); k++ {
			if a[k] == '\\' && k+3 < len(a) && a[k+1] == 'x' {
				if v, err := strconv.ParseUint(a[k+2:k+4], 16, 8); err == nil {
					b = append(b, byte(v))
					k += 3
					continue
				}
			}
			b = append(b, a[k])
		}
		out[i] = string(b)
	}
	return out
}

func runGts(w *simos.World, argv []string, spec simos.ProcSpec) (res procResult) {
	p := startGts(w, argv, spec)
	return endGts(w, p, gtsBody(p))
}

// startGts makes a fresh simulated process the current one: package-level
// state as after exec, standard streams, arguments.
func startGts(w *simos.World, argv []string, spec simos.ProcSpec) *simos.Proc {
	argv = rawArgv(argv)
	simos.W = w
	resetProcessGlobals()
	resetMainGlobals()
	p := w.StartProc(spec)
	simos.Args = append([]string{"gts"}, argv...)
	// flags.Run (a dependency, not rewritten) reads the real os.Args
	realos.Args = append([]string{"gts"}, argv...)
	return p
}

// gtsBody runs the real main of cmd/gts (renamed by the rewriter) in the
// current process: flags.Run reads the process arguments, the command runs,
// os.Exit (the simulated one) unwinds with the status.
func gtsBody(p *simos.Proc) (res procResult) {
	status := 0
	func() {
		defer func() {
			if r := recover(); r != nil {
				switch s := r.(type) {
				case simos.CrashSentinel:
					res.Killed = true
					status = 137
				case simos.ExitSentinel:
					status = s.Code
				default:
					if p.Crashed {
						// a panic raised while unwinding a killed process
						res.Killed = true
						status = 137
						return
					}
					res.Panic = fmt.Sprintf("%v\n%s", r, debug.Stack())
					status = 2
				}
			}
		}()
		gtsRealMain()
	}()
	if p.Crashed {
		res.Killed = true
		status = 137
		if p.Signalled == "SIGPIPE" {
			status = 141
		}
	}
	res.Status = status
	return res
}

// endGts is the end of the current process p: its descriptors are closed and
// what it wrote to its standard streams is collected.
func endGts(w *simos.World, p *simos.Proc, res procResult) procResult {
	res.Ops = p.Ops
	res.Trace = p.Trace
	res.Stdout, res.Stderr = w.EndProc(res.Status)
	res.Fired = p.Fired
	if res.Panic != "" {
		res.Stderr = append(res.Stderr, []byte("panic: "+firstLine(res.Panic)+"\n")...)
	}
	return res
}

// suspendProc sets the simulated process that is running aside - at the
// operation it is about to perform - so that another one can run on the same
// machine meanwhile, and returns the function that lets it go on: the world's
// current process, its three standard streams, its arguments, the
// package-level variables of cmd/gts and the qualifier registries are all
// that one gts process has that another does not share.
func suspendProc(w *simos.World) func() {
	p := w.P
	in, out, errf := simos.Stdin, simos.Stdout, simos.Stderr
	args, rargs := simos.Args, realos.Args
	back := saveMainGlobals()
	q, l, t := seqio.QuotedQualifierNames, seqio.LiteralQualifierNames, seqio.ToggleQualifierNames
	return func() {
		simos.W = w
		w.P = p
		simos.Stdin, simos.Stdout, simos.Stderr = in, out, errf
		simos.Args, realos.Args = args, rargs
		back()
		seqio.QuotedQualifierNames, seqio.LiteralQualifierNames, seqio.ToggleQualifierNames = q, l, t
	}
}

func firstLine(s string) string {
	if i := strings.IndexByte(s, '\n'); i >= 0 {
		return s[:i]
	}
	return s
}

// panicSite extracts the innermost frame that belongs to gts from a stack.
func panicSite(stack string) string {
	lines := strings.Split(stack, "\n")
	for i := 0; i+1 < len(lines); i++ {
		l := lines[i]
		if strings.HasPrefix(l, "github.com/go-gts/gts") && !strings.Contains(l, "verifsim") && !strings.Contains(l, "runGts") {
			fn := l
			if j := strings.LastIndex(fn, "("); j > 0 {
				fn = fn[:j]
			}
			fn = strings.TrimPrefix(fn, "github.com/go-gts/gts")
			fn = strings.TrimPrefix(fn, "/")
			return fn
		}
	}
	return "unknown"
}
