package main

import (
	"bytes"
	"encoding/hex"
	"encoding/json"
	"fmt"

	"github.com/go-gts/gts/internal/verifsim/core"
	"github.com/go-gts/gts/internal/verifsim/corpus"
	"github.com/go-gts/gts/internal/verifsim/simos"
)

type c13Engine struct{}

func (c13Engine) Meta() core.Meta {
	return core.Meta{
		Property:   "C13",
		Level:      "fault_enumeration",
		NonVacuous: []string{"intact_opened", "crash_states_of_the_write_protocol_checked", "recreate_over_corrupt_entry_opens", "concurrent_party_scenarios", "concurrent_reader_opened_the_entry"},
		Rule: "Each simulated run draws a workload from its seed (digest size md5/sha1/sha256, 1-3 keys that may share a root or data digest, " +
			"0-2 earlier writes, one target write with a seeded body class, Write chunking and flate level) and runs the real cmd/cache " +
			"create/write/close code over the simulated disk. Inside the run the fault position is swept: a kill at every write of the protocol " +
			"x torn prefix (all prefixes of the placeholder and final header, boundary+sector+seeded prefixes of body writes), seeded power-loss " +
			"subsets of the un-synced 512-byte pieces, and on the finished file byte flips (every offset for small files), truncation to every " +
			"length, appended tails, entries copied under another key's name, deletion, and re-creation afterwards. A second family runs the " +
			"whole CLI: gts X cold, a fault on the entry it made (or a kill of X itself), gts X again, compared with --no-cache. A third family " +
			"puts 2-3 simulated processes on one or two entries at the same time - writers driving the protocol as cmd/gts/io.go does (one of them may fail, use the API sloppily, or be killed inside a seeded operation), readers - each on a goroutine that only runs between two calls of a scheduler hook at the start of a simulated I/O operation; a seeded schedule (a list of party numbers) decides whose operation is next. When a write error is injected the protocol is driven both by a careful caller and by one that ignores every error. After every " +
			"fault the real Open is called and oracle (S) applied: Open==nil implies the bytes on disk equal an image a completed write of this " +
			"key produced and ReadAll returns exactly that body. A case is one (workload, fault placement) evaluation; it is non-trivial when " +
			"its state key (below) is new.",
		StateRule: "distinct (family, digest, body class, #Write calls class, fault kind, faulted write role {placeholder, body, final-header}, " +
			"torn/offset class {0, in-field-1/2/3, sector boundary, middle, full}, Open outcome) tuples",
		Assumptions: []string{
			"the simulated disk implements os.File semantics faithfully for the calls cmd/cache and cmd/gts make (differential self-test against the real os: ./check selftest simfs)",
			"a kill leaves exactly the bytes of the completed writes plus a prefix of the write in flight; deferred Go code of the killed process has no effect",
			"SHA-1/MD5/SHA-256 collisions do not occur by accident",
			"forged headers (an attacker recomputing digests) are outside the property and are not generated",
		},
		Real: []string{"cmd/cache (Open, CreateLevel, Write, Close, ReadHeader, Header.Validate/WriteTo)", "cmd/gts (TryCache, ioDelegate, all command functions) for the CLI family",
			"compress/flate", "crypto/sha1|md5|sha256", "seqio, gts (CLI family)"},
		Stub:       []string{"package os / io/ioutil / path/filepath.Walk / go-isatty (the simulator)", "flags.Run (argv from the scenario, exit status instead of os.Exit)", "process start (registries reset, fresh fd table)"},
		NotDecided: []string{"availability (an intact entry opens) is measured as a probe (intact_opened/intact_total), not judged: the statement says 'succeeds only when'"},
	}
}

func (c13Engine) Runs(tier string) int {
	if tier == "thorough" {
		return 4000
	}
	return 640
}

func randKey(r *core.RNG, size int) string { return hex.EncodeToString(r.Bytes(size)) }

func genBody(r *core.RNG, tier string) *bodySpec {
	// most multi-block bodies stay small; now and then one exceeds a MiB after
	// compression, so that coverage gaps tied to a buffer size have a chance
	max := 256 << 10
	if r.Chance(1, 2) {
		max = 1600 << 10
	}
	if tier == "thorough" {
		max = 3 << 20
	}
	if r.Chance(1, 8) {
		// sizes on and next to the block sizes of the layers below: 512-byte
		// sectors, the 4096-byte buffered writers, io.Copy's 32 KiB, flate's 64 KiB
		n := []int{512, 4096, 32768, 65536, 60, 120}[r.Intn(6)] + r.Range(-1, 1)
		kind := []string{"random", "zeros", "text"}[r.Intn(3)]
		return &bodySpec{Kind: kind, Len: n, Seed: r.U64()}
	}
	switch r.Pick([]int{8, 6, 22, 20, 18, 10, 9, 4}) {
	case 0:
		return &bodySpec{Kind: "empty"}
	case 1:
		return &bodySpec{Kind: "text", Len: 1, Seed: r.U64()}
	case 2:
		return &bodySpec{Kind: "text", Len: r.Range(2, 3000), Seed: r.U64()}
	case 3:
		return &bodySpec{Kind: "corpus", Corpus: corpus.Names[r.Intn(len(corpus.Names))], Repeat: 1}
	case 4:
		return &bodySpec{Kind: "random", Len: r.Range(1, 20000), Seed: r.U64()}
	case 5:
		return &bodySpec{Kind: "zeros", Len: r.Range(1, 100000)}
	case 6:
		if max > 1<<20 && r.Chance(1, 2) {
			// above a MiB after compression: random bytes do not shrink
			return &bodySpec{Kind: "random", Len: r.Range(1100<<10, max), Seed: r.U64()}
		}
		return &bodySpec{Kind: "random", Len: r.Range(66000, max), Seed: r.U64()}
	default:
		return &bodySpec{Kind: "corpus", Corpus: "NC_001422.gb", Repeat: r.Range(3, 10)}
	}
}

func genWrites(r *core.RNG) []int {
	switch r.Intn(6) {
	case 5:
		return []int{[]int{512, 4096, 32768, 65536}[r.Intn(4)] + r.Range(-1, 1)}
	case 0:
		return nil
	case 1:
		return []int{4096}
	case 2:
		return []int{1, 4095, 4097}
	case 3:
		return []int{r.Range(1, 100)}
	}
	n := r.Range(1, 4)
	w := make([]int, n)
	for i := range w {
		w[i] = r.Range(1, 70000)
	}
	return w
}

var flateLevels = []int{-2, -1, 0, 1, 9}

func genLib(r *core.RNG, tier string) *libScenario {
	sc := &libScenario{Hash: []string{"sha1", "sha1", "sha1", "md5", "sha256"}[r.Intn(5)]}
	size := newHashByName(sc.Hash).Size()
	nk := r.Range(1, 3)
	for i := 0; i < nk; i++ {
		k := [2]string{randKey(r, size), randKey(r, size)}
		if i > 0 && r.Chance(1, 3) {
			k[0] = sc.Keys[0][0] // same input, other arguments
		} else if i > 0 && r.Chance(1, 4) {
			k[1] = sc.Keys[0][1] // same arguments, other input
		}
		sc.Keys = append(sc.Keys, k)
	}
	sc.Arena = r.Chance(1, 5)
	nb := r.Intn(3)
	for i := 0; i < nb; i++ {
		b := genBody(r, tier)
		if b.Len > 70000 {
			b.Len = 70000
		}
		sc.Ops = append(sc.Ops, libOp{Op: "put", Key: r.Intn(nk), Body: b, Writes: genWrites(r), Level: flateLevels[r.Intn(len(flateLevels))]})
	}
	if nk > 1 && r.Chance(1, 6) {
		// a caller that reuses its digest buffers for the next key while
		// this entry is still open
		k := r.Intn(nk)
		o := (k + 1 + r.Intn(nk-1)) % nk
		b := genBody(r, tier)
		if b.Len > 70000 {
			b.Len = 70000
		}
		sc.Ops = append(sc.Ops, libOp{Op: "put", Key: k, Body: b, Writes: genWrites(r), Level: flateLevels[r.Intn(len(flateLevels))], ReuseFor: o + 1})
	}
	sc.Ops = append(sc.Ops, libOp{Op: "put", Key: r.Intn(nk), Body: genBody(r, tier), Writes: genWrites(r), Level: flateLevels[r.Intn(len(flateLevels))]})
	return sc
}

func tornClass(t, n, size int, role string) string {
	switch {
	case t == 0:
		return "0"
	case t >= n:
		return "full"
	case role != "body" && t < size:
		return "in-field-1"
	case role != "body" && t < 2*size:
		return "in-field-2"
	case role != "body":
		return "in-field-3"
	case t%512 == 0:
		return "sector"
	}
	return "middle"
}

func wclass(n int) string {
	switch {
	case n <= 1:
		return "w1"
	case n <= 4:
		return "w2-4"
	}
	return "w5+"
}

func (e c13Engine) RunSeed(tier string, seed uint64, idx int) *core.Result {
	rng := core.NewRNG(seed)
	if rng.Chance(2, 5) {
		return c13CliRun(tier, seed, rng)
	}
	if rng.Chance(1, 3) {
		// several processes on one entry under a seeded schedule
		res := concRunSeed(tier, seed, rng)
		for i := 0; i < 40 && len(res.Violations) == 0 && res.Harness == ""; i++ {
			more := concRunSeed(tier, seed, rng)
			res.Evaluations += more.Evaluations
			res.SimOps += more.SimOps
			res.Violations = more.Violations
			for k, v := range more.Probes {
				res.Probes[k] += v
			}
			for k, v := range more.Faults {
				res.Faults[k] += v
			}
			for _, k := range more.Keys {
				seen := false
				for _, h := range res.Keys {
					if h == k {
						seen = true
					}
				}
				if !seen {
					res.Keys = append(res.Keys, k)
				}
			}
			res.Digest = more.Digest
			res.Sample = more.Sample
			res.Harness = more.Harness
		}
		return res
	}
	res := &core.Result{Seed: seed, Probes: map[string]int{"intact_total": 0, "intact_opened": 0}, Faults: map[string]int{}}
	sc := genLib(rng, tier)
	if rng.Chance(1, 6) {
		// tune the target body so that its stored (level 0) stream - or the
		// whole file, header included - fills whole blocks of one of the
		// sizes the layers below work in: what is appended then starts on a
		// block edge, and a reader that works in such pieces ends on one
		t := &sc.Ops[len(sc.Ops)-1]
		t.Level = 0
		block := []int{4096, 4096, 512, 32768, 65536, 65536}[rng.Intn(6)]
		whole := rng.Chance(1, 2)
		if t.Body.Kind == "empty" || t.Body.Kind == "corpus" || t.Body.Len < block+200 {
			t.Body = &bodySpec{Kind: "random", Len: rng.Range(block+200, 2*block+20000), Seed: rng.U64()}
		}
		if t.Body.Len > 200000 {
			t.Body.Len = 200000
		}
		for try := 0; try < 3; try++ {
			probe := &libScenario{Hash: sc.Hash, Keys: sc.Keys, Ops: []libOp{*t}}
			pr := newLibRun(probe, &core.Result{Probes: map[string]int{}, Faults: map[string]int{}})
			pr.doPut(*t, func() *libScenario { return probe })
			img, ok := pr.w.GetFile(pr.paths[t.Key])
			if !ok {
				break
			}
			n := len(img)
			if !whole {
				n -= 3 * pr.h.Size()
			}
			rem := n % block
			if rem == 0 {
				if whole {
					res.Probes["entry_file_tuned_to_block_size"]++
				} else {
					res.Probes["body_stream_tuned_to_block_size"]++
				}
				break
			}
			if t.Body.Len <= rem+1 {
				break
			}
			b := *t.Body
			b.Len -= rem
			t.Body = &b
		}
	}
	r := newLibRun(sc, res)
	core.Current, core.CurrentSig = c13Scenario{Kind: "lib", Lib: sc}, "lib"
	// base workload, oracle after every op
	r.execOps()
	tgt := sc.Ops[len(sc.Ops)-1]
	ti := tgt.Key
	path := r.paths[ti]
	size := r.h.Size()
	complete, okc := r.w.GetFile(path)
	if !okc || len(r.legit[ti]) == 0 || r.lastLog == nil {
		// the fault-free target write was not acknowledged: nothing to sweep
		return e.finish(r, res, sc)
	}
	newEntry := r.legit[ti][len(r.legit[ti])-1]
	// legit set during crash states: whatever was acknowledged before plus the write in flight
	var old []legitEntry
	if r.lastPreOK {
		old = append(old, legitEntry{image: r.lastPre, body: nil, acked: true})
		// the body of the earlier acknowledged image: recover it from the earlier ops
		old[0].body = r.bodyOfImage(ti, r.lastPre)
	}
	r.legit[ti] = append(append([]legitEntry(nil), old...), newEntry)
	log := r.lastLog
	trace := r.lastTrace
	// op indices of the create and of each write to the target path
	var writeOps []int
	createOp := -1
	for i, o := range trace {
		if o.Class != "cache" {
			continue
		}
		if o.Kind == "create" && createOp < 0 {
			createOp = i
		}
		if o.Kind == "write" {
			writeOps = append(writeOps, i)
		}
	}
	nWrites := 0
	for _, l := range log {
		if l.Off >= 0 {
			nWrites++
		}
	}
	aside := len(writeOps) > 0 && trace[writeOps[0]].Path != path
	if aside {
		// handled below, once the helpers are defined
	} else if nWrites != len(writeOps) {
		res.Harness = fmt.Sprintf("c13: write log has %d writes, trace has %d", nWrites, len(writeOps))
		return res
	}
	if nWrites > 2 {
		r.probe("flate_flush_before_close")
	}
	bclass, wc := tgt.Body.class(), wclass(len(tgt.Writes))
	base := sc.Ops[:len(sc.Ops)-1]
	mkCrash := func(atOp, torn int) func() *libScenario {
		return func() *libScenario {
			c := *sc
			op := tgt
			op.Fault = &simos.Fault{AtOp: atOp, Kind: "kill", Torn: torn}
			c.Ops = append(append([]libOp(nil), base...), op)
			return &c
		}
	}
	if aside {
		// The library does not write the entry in place: it writes another
		// file and moves it over the entry's name. There is no sequence of
		// images of the entry to derive then; the process is killed for real
		// at its operations instead - all of them when they are few, the
		// first and last ones and a seeded choice otherwise - and after each
		// kill the entry must be what it was before or what it is afterwards.
		r.probe("entry_written_aside_and_moved_into_place")
		r.probe("crash_states_of_the_write_protocol_checked")
		pick := map[int]bool{}
		if len(trace) <= 70 {
			for i := range trace {
				pick[i] = true
			}
		} else {
			for i := 0; i < 12; i++ {
				pick[i] = true
			}
			for i := len(trace) - 20; i < len(trace); i++ {
				pick[i] = true
			}
			k := 25
			if tier == "thorough" {
				k = 120
			}
			for i := 0; i < k; i++ {
				pick[rng.Intn(len(trace))] = true
			}
		}
		for at := 0; at < len(trace); at++ {
			if !pick[at] {
				continue
			}
			torns := []int{0}
			if trace[at].Kind == "write" && trace[at].Len > 0 {
				torns = []int{0, trace[at].Len / 2, trace[at].Len - 1, trace[at].Len}
			}
			for _, t := range torns {
				r.setFile(path, r.lastPre, r.lastPreOK)
				r.removeStrays(path)
				_, _, pnc, p := r.put(tgt, &simos.Fault{AtOp: at, Kind: "kill", Torn: t}, nil)
				r.countFaults(p)
				if pnc != "" {
					r.violate("panic", panicSite(pnc), firstLine(pnc), mkCrash(at, t)())
					continue
				}
				opened := r.check(ti, mkCrash(at, t))
				r.key(fmt.Sprintf("crash-aside|%s|%s|%s|%s|pre=%v|open=%v", sc.Hash, bclass, wclass(len(tgt.Writes)), trace[at].Kind, r.lastPreOK, opened))
			}
		}
		r.setFile(path, complete, true)
		r.removeStrays(path)
	}
	type crashPoint struct{ n, torn, atOp int }
	var sampled []crashPoint
	wi := 0
	for n := 0; n < len(log) && !aside; n++ {
		if log[n].Off < 0 {
			// kill at the create, before truncation took effect
			r.setFile(path, r.lastPre, r.lastPreOK)
			r.check(ti, mkCrash(createOp, 0))
			r.key(fmt.Sprintf("crash|%s|%s|%s|create|0|pre=%v", sc.Hash, bclass, wc, r.lastPreOK))
			res.Faults["kill(derived)"]++
			continue
		}
		role := "body"
		if wi == 0 {
			role = "placeholder"
		} else if wi == nWrites-1 {
			role = "final-header"
		}
		ln := len(log[n].Data)
		var torns []int
		if role != "body" {
			for t := 0; t <= ln; t++ {
				torns = append(torns, t)
			}
		} else {
			torns = []int{0, 1, ln / 2, ln - 1, ln}
			for s := 512; s < ln && len(torns) < 14; s += 512 * (1 + ln/8192) {
				torns = append(torns, s)
			}
			k := 2
			if tier == "thorough" {
				k = 12
			}
			for i := 0; i < k; i++ {
				torns = append(torns, rng.Intn(ln+1))
			}
		}
		for _, t := range torns {
			if t < 0 || t > ln {
				continue
			}
			img := derive(r.lastPre, r.lastPreOK, log, n, t)
			if wi == 0 && t == 0 && !r.lastPreOK && n == 0 {
				// created, nothing written yet
				r.setFile(path, nil, true)
			} else {
				r.setFile(path, img, true)
			}
			if t == ln && n == len(log)-1 {
				r.probe("torn_equals_full_final_header")
			}
			if role == "final-header" && t > 0 && t < ln && allZero(log[n].Data[t:]) {
				r.probe("torn_header_rest_equals_zero_placeholder")
			}
			opened := r.check(ti, mkCrash(writeOps[wi], t))
			r.key(fmt.Sprintf("crash|%s|%s|%s|%s|%s|pre=%v|open=%v", sc.Hash, bclass, wc, role, tornClass(t, ln, size, role), r.lastPreOK, opened))
			res.Faults["kill(derived)"]++
			if rng.Chance(1, 40) && len(sampled) < 4 {
				sampled = append(sampled, crashPoint{n, t, writeOps[wi]})
			}
		}
		wi++
	}
	if !r.lastPreOK {
		// kill before the file was created at all
		r.setFile(path, nil, false)
		r.check(ti, mkCrash(createOp, 0))
		r.key(fmt.Sprintf("crash|%s|absent", sc.Hash))
	}
	// cross-check a few derived crash states against a real kill at that point
	for _, cp := range sampled {
		want := derive(r.lastPre, r.lastPreOK, log, cp.n, cp.torn)
		r.setFile(path, r.lastPre, r.lastPreOK)
		_, killed, pnc, p := r.put(tgt, &simos.Fault{AtOp: cp.atOp, Kind: "kill", Torn: cp.torn}, nil)
		r.countFaults(p)
		got, _ := r.w.GetFile(path)
		if pnc != "" || !killed || !bytes.Equal(got, want) {
			res.Harness = fmt.Sprintf("c13: derived crash image differs from the image a real kill at op %d torn %d leaves (killed=%v panic=%q len %d vs %d)", cp.atOp, cp.torn, killed, firstLine(pnc), len(got), len(want))
			return res
		}
		r.probe("derived_crash_image_confirmed_by_real_kill")
		r.probe("crash_states_of_the_write_protocol_checked")
	}
	// an I/O error on one operation of the protocol, and a kill at each of the
	// operations that follow it: whatever the caller does about the error,
	// the entry must not be openable with other bytes at any instant
	if len(tgt.Body.bytes()) <= 70000 {
		var targets []int
		for i, o := range trace {
			if o.Class == "cache" && (o.Kind == "write" || o.Kind == "create" || o.Kind == "seek" || o.Kind == "read" || o.Kind == "close") {
				targets = append(targets, i)
			}
		}
		pickT := map[int]bool{}
		if len(targets) > 0 {
			pickT[targets[0]] = true
			pickT[targets[minInt(1, len(targets)-1)]] = true
			for _, d := range []int{1, 2, 3, 4, 5, 6, 7} {
				if len(targets)-d >= 0 {
					pickT[targets[len(targets)-d]] = true
				}
			}
			pickT[targets[rng.Intn(len(targets))]] = true
		}
		for _, at := range targets {
			if !pickT[at] {
				continue
			}
			kind := []string{"eio", "enospc", "eacces"}[rng.Intn(3)]
			torn := 0
			if trace[at].Kind == "write" && trace[at].Len > 0 {
				torn = rng.Intn(trace[at].Len)
			}
			for kill := -2; kill <= 10; kill++ {
				fs := []simos.Fault{{AtOp: at, Kind: kind, Torn: torn}}
				if kill >= 0 {
					fs = append(fs, simos.Fault{AtOp: at + 1 + kill, Kind: "kill"})
				}
				// kill == -2: no kill, and a caller that ignores the error it
				// was given and carries on with the File it holds
				drive := tgt
				drive.Careless = kill == -2
				r.setFile(path, r.lastPre, r.lastPreOK)
				_, _, pnc, p := r.putFaults(drive, fs, nil)
				r.countFaults(p)
				fcopy := append([]simos.Fault(nil), fs...)
				mk := func() *libScenario {
					c := *sc
					op := drive
					op.Faults = fcopy
					c.Ops = append(append([]libOp(nil), base...), op)
					return &c
				}
				if pnc != "" {
					r.violate("panic", panicSite(pnc), firstLine(pnc), mk())
					continue
				}
				opened := r.check(ti, mk)
				r.key(fmt.Sprintf("ioerror|%s|%s|%s@%s|then-kill=%v|careless=%v|open=%v", sc.Hash, bclass, kind, trace[at].Kind, kill >= 0, kill == -2, opened))
			}
		}
	}
	// power loss: the process finished, un-synced pieces are lost
	npl := 6
	if tier == "thorough" {
		npl = 30
	}
	for i := 0; i < npl; i++ {
		pl := &simos.PowerLoss{LenFull: rng.Chance(1, 2)}
		nd := rng.Range(1, 3)
		for j := 0; j < nd; j++ {
			pl.Drop = append(pl.Drop, rng.Intn(1<<20))
		}
		if rng.Chance(1, 3) {
			pl.Drop = append(pl.Drop, 0) // the first sector: the header
		}
		r.setFile(path, r.lastPre, r.lastPreOK)
		_, _, pnc, p := r.put(tgt, nil, pl)
		r.countFaults(p)
		plc := *pl
		mk := func() *libScenario {
			c := *sc
			op := tgt
			op.PowerLoss = &plc
			c.Ops = append(append([]libOp(nil), base...), op)
			return &c
		}
		if pnc != "" {
			r.violate("panic", panicSite(pnc), firstLine(pnc), mk())
			continue
		}
		opened := r.check(ti, mk)
		r.key(fmt.Sprintf("powerloss|%s|%s|drops=%d|lenfull=%v|open=%v", sc.Hash, bclass, len(pl.Drop), pl.LenFull, opened))
	}

	// the finished file
	r.legit[ti] = []legitEntry{newEntry}
	restore := func() { r.setFile(path, complete, true) }
	restore()
	mkDisk := func(k int, d diskFault) func() *libScenario {
		return func() *libScenario {
			c := *sc
			c.Ops = append(append([]libOp(nil), sc.Ops...), libOp{Op: "disk", Key: k, Disk: &d})
			return &c
		}
	}
	n := len(complete)
	region := func(at int) string {
		switch {
		case at < size:
			return "hdr-root"
		case at < 2*size:
			return "hdr-data"
		case at < 3*size:
			return "hdr-body"
		case at == 3*size:
			return "body-first"
		case at == n-1:
			return "body-last"
		}
		return "body"
	}
	limit := 4096
	if tier == "thorough" {
		limit = 65536
	}
	var offs []int
	if n <= limit {
		for i := 0; i < n; i++ {
			offs = append(offs, i)
		}
	} else {
		for i := 0; i < 3*size+16 && i < n; i++ {
			offs = append(offs, i)
		}
		for i := 0; i < 256; i++ {
			offs = append(offs, rng.Intn(n))
		}
		for i := n - 16; i < n; i++ {
			offs = append(offs, i)
		}
	}
	for _, at := range offs {
		masks := []int{1 + rng.Intn(255)}
		if at < 3*size && (tier == "thorough" || rng.Chance(1, 4)) {
			masks = []int{1, 2, 4, 8, 16, 32, 64, 128, 255}
		} else if tier == "thorough" && n <= 2048 {
			// small files: every single-bit flip of every byte
			masks = []int{1, 2, 4, 8, 16, 32, 64, 128}
		}
		for _, m := range masks {
			d := diskFault{Kind: "flip", At: at, Mask: m}
			r.applyDisk(ti, &d)
			opened := r.check(ti, mkDisk(ti, d))
			res.Faults["flip"]++
			r.key(fmt.Sprintf("flip|%s|%s|%s|open=%v", sc.Hash, bclass, region(at), opened))
			restore()
		}
	}
	var lens []int
	if n <= limit/2 {
		for i := 0; i < n; i++ {
			lens = append(lens, i)
		}
	} else {
		for i := 0; i <= 3*size+2 && i < n; i++ {
			lens = append(lens, i)
		}
		for i := 0; i < 64; i++ {
			lens = append(lens, rng.Intn(n))
		}
		lens = append(lens, n-1, n-2)
	}
	for _, l := range lens {
		if l < 0 || l >= n {
			continue
		}
		d := diskFault{Kind: "truncate", Len: l}
		r.applyDisk(ti, &d)
		opened := r.check(ti, mkDisk(ti, d))
		res.Faults["truncate"]++
		lc := "body"
		if l < 3*size {
			lc = "short-header"
			r.probe("readheader_short_file")
		} else if l == 3*size {
			lc = "header-only"
		}
		r.key(fmt.Sprintf("truncate|%s|%s|%s|open=%v", sc.Hash, bclass, lc, opened))
		restore()
	}
	for _, t := range []diskFault{
		{Kind: "extend", Tail: "byte", Mask: 0}, {Kind: "extend", Tail: "byte", Mask: 1 + rng.Intn(255)},
		{Kind: "extend", Tail: "zeros", Len: 16}, {Kind: "extend", Tail: "flateblock"}, {Kind: "extend", Tail: "selfcopy"},
		{Kind: "extend", Tail: "selfbody"}, {Kind: "extend", Tail: "random", Len: 1 + rng.Intn(300)},
	} {
		d := t
		r.applyDisk(ti, &d)
		opened := r.check(ti, mkDisk(ti, d))
		res.Faults["extend"]++
		r.key(fmt.Sprintf("extend|%s|%s|%s|open=%v", sc.Hash, bclass, d.Tail, opened))
		restore()
	}
	{
		// a directory under the entry's name
		d := diskFault{Kind: "dir"}
		r.applyDisk(ti, &d)
		opened := r.check(ti, mkDisk(ti, d))
		res.Faults["dir"]++
		r.key(fmt.Sprintf("dir|%s|open=%v", sc.Hash, opened))
		r.w.RemoveDirRaw(path)
		restore()
	}
	for o := range r.keys {
		if o == ti {
			continue
		}
		share := "none"
		if sc.Keys[o][0] == sc.Keys[ti][0] {
			share = "root"
		} else if sc.Keys[o][1] == sc.Keys[ti][1] {
			share = "data"
		}
		// this key's entry under the other key's name
		saved, had := r.w.GetFile(r.paths[o])
		d := diskFault{Kind: "copykey", Other: ti}
		r.applyDisk(o, &d)
		opened := r.check(o, mkDisk(o, d))
		res.Faults["copykey"]++
		r.key(fmt.Sprintf("copykey|%s|share=%s|open=%v", sc.Hash, share, opened))
		r.setFile(r.paths[o], saved, had)
	}
	{
		d := diskFault{Kind: "delete"}
		r.applyDisk(ti, &d)
		r.check(ti, mkDisk(ti, d))
		res.Faults["delete"]++
		r.key("delete|" + sc.Hash)
	}
	// recovery: corrupt, then a fault-free re-create of the same key
	{
		restore()
		d := diskFault{Kind: "flip", At: rng.Intn(n), Mask: 1 + rng.Intn(255)}
		r.applyDisk(ti, &d)
		op := tgt
		acked, _, pnc, _ := r.put(op, nil, nil)
		mk := func() *libScenario {
			c := *sc
			c.Ops = append(append([]libOp(nil), sc.Ops...), libOp{Op: "disk", Key: ti, Disk: &d}, op)
			return &c
		}
		if pnc != "" {
			r.violate("panic", panicSite(pnc), firstLine(pnc), mk())
		} else if acked {
			img, _ := r.w.GetFile(path)
			r.legit[ti] = []legitEntry{{img, op.Body.bytes(), true}}
			if r.check(ti, mk) {
				r.probe("recreate_over_corrupt_entry_opens")
			}
			r.key("recreate|" + sc.Hash + "|" + bclass)
		}
	}
	return e.finish(r, res, sc)
}

func allZero(p []byte) bool {
	for _, b := range p {
		if b != 0 {
			return false
		}
	}
	return true
}

func (r *libRun) setFile(path string, data []byte, exists bool) {
	if exists {
		r.w.PutFile(path, data)
	} else {
		r.w.DeleteFile(path)
	}
}

// bodyOfImage finds the body that goes with an acknowledged image of key ki.
func (r *libRun) bodyOfImage(ki int, image []byte) []byte {
	for i := len(r.sc.Ops) - 2; i >= 0; i-- {
		op := r.sc.Ops[i]
		if op.Op == "put" && op.Key == ki && op.Fault == nil && op.PowerLoss == nil {
			return op.Body.bytes()
		}
	}
	return nil
}

func (e c13Engine) finish(r *libRun, res *core.Result, sc *libScenario) *core.Result {
	res.SimOps = r.w.Stats.Ops
	res.Digest = r.w.Log.Digest()
	res.Violations = r.vs
	for k, v := range r.w.Stats.FaultsFired {
		res.Faults[k] += 0 * v // real faults are counted per process in countFaults
	}
	b, _ := json.Marshal(c13Scenario{Kind: "lib", Lib: sc})
	res.Sample = b
	return res
}

func (e c13Engine) Replay(raw json.RawMessage) ([]core.Violation, string, error) {
	var sc c13Scenario
	if err := json.Unmarshal(raw, &sc); err != nil {
		return nil, "", err
	}
	if sc.Kind == "conc" {
		return concReplay(sc.Conc)
	}
	if sc.Kind == "cli" {
		return cliReplay("C13", sc.Cli, func(c *cliScenario) json.RawMessage {
			b, _ := json.Marshal(c13Scenario{Kind: "cli", Cli: c})
			return b
		})
	}
	res := &core.Result{Probes: map[string]int{}, Faults: map[string]int{}}
	r := newLibRun(sc.Lib, res)
	r.execOps()
	return r.vs, r.w.Log.Digest(), nil
}

func (e c13Engine) Candidates(raw json.RawMessage) []json.RawMessage {
	var sc c13Scenario
	if json.Unmarshal(raw, &sc) != nil {
		return nil
	}
	if sc.Kind == "conc" {
		var out []json.RawMessage
		for _, c := range concCandidates(sc.Conc) {
			b, _ := json.Marshal(c13Scenario{Kind: "conc", Conc: c})
			out = append(out, b)
		}
		return out
	}
	if sc.Kind == "cli" {
		var out []json.RawMessage
		for _, c := range cliCandidates(sc.Cli) {
			b, _ := json.Marshal(c13Scenario{Kind: "cli", Cli: c})
			out = append(out, b)
		}
		return out
	}
	var out []json.RawMessage
	emit := func(l *libScenario) {
		b, _ := json.Marshal(c13Scenario{Kind: "lib", Lib: l})
		out = append(out, b)
	}
	l := sc.Lib
	clone := func() *libScenario {
		c := *l
		c.Ops = append([]libOp(nil), l.Ops...)
		c.Keys = append([][2]string(nil), l.Keys...)
		return &c
	}
	// drop an op (never the last two: the faulted one and what precedes it are tried last)
	for i := 0; i < len(l.Ops)-1; i++ {
		c := clone()
		c.Ops = append(c.Ops[:i], c.Ops[i+1:]...)
		emit(c)
	}
	for i, op := range l.Ops {
		if op.Body != nil && op.Body.Kind != "empty" {
			for _, nb := range []bodySpec{{Kind: "empty"}, {Kind: "text", Len: 1, Seed: 1}, {Kind: "text", Len: 40, Seed: 1}, {Kind: "text", Len: 5000, Seed: 1}} {
				if len(nb.bytes()) >= len(op.Body.bytes()) {
					continue
				}
				c := clone()
				b := nb
				c.Ops[i].Body = &b
				emit(c)
			}
		}
		if len(op.Writes) > 0 {
			c := clone()
			c.Ops[i].Writes = nil
			emit(c)
		}
		if op.Op == "put" && op.Level != -1 {
			c := clone()
			c.Ops[i].Level = -1
			emit(c)
		}
		if op.Fault != nil && op.Fault.Torn > 0 {
			c := clone()
			f := *op.Fault
			f.Torn /= 2
			c.Ops[i].Fault = &f
			emit(c)
		}
		if op.PowerLoss != nil && len(op.PowerLoss.Drop) > 1 {
			for j := range op.PowerLoss.Drop {
				c := clone()
				pl := *op.PowerLoss
				pl.Drop = append(append([]int(nil), pl.Drop[:j]...), pl.Drop[j+1:]...)
				c.Ops[i].PowerLoss = &pl
				emit(c)
			}
		}
	}
	if l.Hash != "sha1" {
		// keys must be resized with the digest, so only try when they can be regenerated
		c := clone()
		c.Hash = "sha1"
		for i := range c.Keys {
			c.Keys[i] = [2]string{fixLen(c.Keys[i][0], 20), fixLen(c.Keys[i][1], 20)}
		}
		emit(c)
	}
	return out
}

func fixLen(h string, n int) string {
	for len(h) < 2*n {
		h += "00"
	}
	return h[:2*n]
}
