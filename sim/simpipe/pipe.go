// Package simpipe is the simulated pipe between two simulated processes (or
// between a file and a reader): an io.Reader whose every Read size, end of
// stream and error is decided by the scenario.
package simpipe

import (
	"errors"
	"io"
)

// ErrIO is the injected read error.
var ErrIO = errors.New("simpipe: input/output error (injected)")

// Spec describes how the stream is delivered.
type Spec struct {
	Chunks   []int  `json:"chunks,omitempty"`    // sizes of successive reads, cycled; empty = whatever is asked
	CutAt    int    `json:"cut_at"`              // stream ends at this offset; <0 = at its natural end
	CutKind  string `json:"cut_kind,omitempty"`  // eof (default) | eio | ueof | closed
	WithData bool   `json:"with_data,omitempty"` // last data and the error arrive in the same Read
}

// Reader delivers data according to a Spec.
type Reader struct {
	data  []byte
	spec  Spec
	pos   int
	ci    int
	end   int
	done  bool
	Reads int
	// ReadsAfterError counts Read calls made after an error had been returned.
	ReadsAfterError int
	// ErrorDelivered is true once EOF or ErrIO has been returned.
	ErrorDelivered bool
}

// New returns a reader over data.
func New(data []byte, spec Spec) *Reader {
	end := len(data)
	if spec.CutAt >= 0 && spec.CutAt < end {
		end = spec.CutAt
	}
	return &Reader{data: data, spec: spec, end: end}
}

func (r *Reader) final() error {
	switch r.spec.CutKind {
	case "eio":
		return ErrIO
	case "ueof": // what gzip, LimitReader-with-check, http bodies ... return for a short stream
		return io.ErrUnexpectedEOF
	case "closed":
		return io.ErrClosedPipe
	}
	return io.EOF
}

// IsErrorKind reports whether a cut kind stands for a reader failure (as
// opposed to a plain end of stream).
func IsErrorKind(kind string) bool { return kind == "eio" || kind == "ueof" || kind == "closed" }

// Read implements io.Reader. It never returns (0, nil) for a non-empty p.
func (r *Reader) Read(p []byte) (int, error) {
	r.Reads++
	if r.done {
		r.ReadsAfterError++
		return 0, r.final()
	}
	if len(p) == 0 {
		return 0, nil
	}
	if r.pos >= r.end {
		r.done, r.ErrorDelivered = true, true
		return 0, r.final()
	}
	n := len(p)
	if len(r.spec.Chunks) > 0 {
		c := r.spec.Chunks[r.ci%len(r.spec.Chunks)]
		r.ci++
		if c < 1 {
			c = 1
		}
		if c < n {
			n = c
		}
	}
	if n > r.end-r.pos {
		n = r.end - r.pos
	}
	copy(p, r.data[r.pos:r.pos+n])
	r.pos += n
	if r.pos >= r.end && r.spec.WithData {
		r.done, r.ErrorDelivered = true, true
		return n, r.final()
	}
	return n, nil
}

// Delivered is the number of bytes handed out so far.
func (r *Reader) Delivered() int { return r.pos }

// Writer is a sink that accepts Limit bytes and then fails every write (a
// full disk, a reader that went away). Limit < 0 means no limit.
type Writer struct {
	Limit  int
	Data   []byte
	Failed int
	// ChunkLimit, if > 0, makes every Write accept at most that many bytes
	// (a short write reported with io.ErrShortWrite semantics: n < len(p), nil error is not allowed by io.Writer, so an error is returned).
}

// ErrSink is the injected write error.
var ErrSink = errors.New("simpipe: no space left on device (injected)")

// Write implements io.Writer.
func (w *Writer) Write(p []byte) (int, error) {
	if w.Limit >= 0 && len(w.Data)+len(p) > w.Limit {
		n := w.Limit - len(w.Data)
		if n < 0 {
			n = 0
		}
		w.Data = append(w.Data, p[:n]...)
		w.Failed++
		return n, ErrSink
	}
	w.Data = append(w.Data, p...)
	return len(p), nil
}

// AlignedChunks builds a chunk list that makes reads end exactly delta bytes
// after each of the given stream offsets (record boundaries), the way a
// producer that flushes once per record fills a pipe. Reads never exceed max
// bytes (the consumer's buffer size).
func AlignedChunks(bounds []int, delta, max int) []int {
	var out []int
	pos := 0
	for _, b := range bounds {
		target := b + delta
		for pos < target {
			n := target - pos
			if n > max {
				n = max
			}
			out = append(out, n)
			pos += n
		}
	}
	if len(out) == 0 {
		return nil
	}
	return append(out, max)
}
