package e2

import (
	"bytes"
	"encoding/json"
	"fmt"
	"os"
	"regexp"
	"runtime/debug"
	"strings"

	"github.com/go-gts/gts"
	"github.com/go-gts/gts/internal/verifsim/core"
	"github.com/go-gts/gts/internal/verifsim/corpus"
	"github.com/go-gts/gts/internal/verifsim/simpipe"
	"github.com/go-gts/gts/seqio"
)

// editOp is one gts edit operation applied to a record before it is written.
type editOp struct {
	Op string `json:"op"` // reverse | complement | rotate | delete | erase | slice | insert | embed | concat | clear
	I  int    `json:"i,omitempty"`
	N  int    `json:"n,omitempty"`
	G  int    `json:"g,omitempty"` // residues of the guest of insert / embed (0: nine)
}

type recSource struct {
	Gen    *recSpec `json:"gen,omitempty"`
	Corpus string   `json:"corpus,omitempty"`
	Ops    []editOp `json:"ops,omitempty"`
	// Dialect: the text gts writes for Gen is rewritten into another legal
	// flat-file layout (as files from other tools have) and enters, like a
	// corpus file, through gts's own reader in a process of its own.
	Dialect []string `json:"dialect,omitempty"`
}

var dialects = []string{"shuffle-quals", "wrap-dblink", "crlf", "trailing-blanks", "origin-bare", "lower-month", "blank-lines-after", "bare-flag", "bare-flag", "bare-number", "bare-number"}

// applyDialect rewrites GenBank text written by gts into a foreign layout.
func applyDialect(text []byte, d string, seed uint64) []byte {
	lines := strings.SplitAfter(string(text), "\n")
	const qi = "                     "
	switch d {
	case "shuffle-quals":
		// the qualifiers of each feature in another order (repeated names end up apart)
		r := core.NewRNG(seed)
		var out []string
		i := 0
		for i < len(lines) {
			l := lines[i]
			if !(strings.HasPrefix(l, qi+"/")) {
				out = append(out, l)
				i++
				continue
			}
			var blocks [][]string
			for i < len(lines) && strings.HasPrefix(lines[i], qi) {
				if strings.HasPrefix(lines[i], qi+"/") || len(blocks) == 0 {
					blocks = append(blocks, nil)
				}
				blocks[len(blocks)-1] = append(blocks[len(blocks)-1], lines[i])
				i++
			}
			for k := len(blocks) - 1; k > 0; k-- {
				j := r.Intn(k + 1)
				blocks[k], blocks[j] = blocks[j], blocks[k]
			}
			for _, b := range blocks {
				out = append(out, b...)
			}
		}
		return []byte(strings.Join(out, ""))
	case "wrap-dblink":
		for i, l := range lines {
			if strings.HasPrefix(l, "DBLINK      ") {
				t := strings.TrimRight(l, "\n")
				lines[i] = t + ",\n            PRJNA000002\n"
				break
			}
		}
	case "crlf":
		return bytes.ReplaceAll(text, []byte("\n"), []byte("\r\n"))
	case "trailing-blanks":
		in := false
		for i, l := range lines {
			if strings.HasPrefix(l, "ORIGIN") {
				in = true
				continue
			}
			if in && !strings.HasPrefix(l, "//") {
				lines[i] = strings.TrimRight(l, "\n") + " \n"
			}
		}
	case "origin-bare":
		for i, l := range lines {
			if strings.HasPrefix(l, "ORIGIN") {
				lines[i] = "ORIGIN\n"
			}
		}
	case "lower-month":
		if len(lines) > 0 {
			f := strings.Fields(lines[0])
			if len(f) > 0 {
				d := f[len(f)-1]
				if len(d) >= 6 {
					p := strings.Split(d, "-")
					if len(p) == 3 && len(p[1]) == 3 {
						p[1] = p[1][:1] + strings.ToLower(p[1][1:])
						lines[0] = strings.Replace(lines[0], d, strings.Join(p, "-"), 1)
					}
				}
			}
		}
	case "bare-flag":
		// an empty qualifier of a name gts has no type for, written as other
		// tools write a flag: /name instead of /name=""
		for i, l := range lines {
			t := strings.TrimRight(l, "\n")
			if strings.HasPrefix(t, qi+"/") && strings.HasSuffix(t, "=\"\"") {
				name := strings.TrimSuffix(strings.TrimPrefix(t, qi+"/"), "=\"\"")
				for _, u := range unknownNames {
					if u == name {
						lines[i] = qi + "/" + name + "\n"
					}
				}
			}
		}
	case "bare-number":
		// a numeric value of a name gts has no type for, written without quotes
		// as other tools do: /name=42 instead of /name="42"
		for i, l := range lines {
			t := strings.TrimRight(l, "\n")
			if !strings.HasPrefix(t, qi+"/") || !strings.HasSuffix(t, "\"") {
				continue
			}
			eq := strings.Index(t, "=\"")
			if eq < 0 || eq+2 > len(t)-1 {
				continue // no value on this line (a value that starts with a line break)
			}
			name, val := t[len(qi)+1:eq], t[eq+2:len(t)-1]
			if val == "" || strings.Trim(val, "0123456789") != "" {
				continue
			}
			for _, u := range unknownNames {
				if u == name {
					lines[i] = qi + "/" + name + "=" + val + "\n"
				}
			}
		}
	case "blank-lines-after":
		return append(text, []byte("\n\n")...)
	}
	return []byte(strings.Join(lines, ""))
}

type c01Scenario struct {
	// FailFirst: the writer process first writes the first record to a sink
	// that fails after that many bytes, then carries on with a healthy sink.
	FailFirst *int        `json:"fail_first,omitempty"`
	Records   []recSource `json:"records"`
	Chunks2   []int       `json:"chunks2,omitempty"`
	Chunks3   []int       `json:"chunks3,omitempty"`
	AltChunks []int       `json:"alt_chunks,omitempty"`
	// Align: if set, P2 reads the stream in reads that end exactly Align-1
	// bytes after every record boundary (0 = not aligned; 1 = on the boundary,
	// 2 = one byte past it, ...): a producer that flushes once per record.
	Align int `json:"align,omitempty"`
	// SameProcess: the records that entered through the reader (corpus files,
	// foreign layouts) are all read by ONE process, which then also writes -
	// as `gts <cmd> file` does - instead of one reader process per record and
	// a separate writer process: what the reader learnt about qualifier names
	// is still there when the writer runs.
	SameProcess bool `json:"same_process,omitempty"`
	// PostOps: one more process reads the written stream with ONE scanner and
	// applies these edit operations to every record - as each record arrives
	// (like `gts rotate` on a multi-record stream) or, with PostCollect, after
	// all of them were collected (like `gts join` or the guests of `gts insert`)
	// - and writes the results. Each must equal what the same operations give
	// for the record's own bytes read alone in a fresh process: records of a
	// stream are independent values, also under edits that grow them.
	PostOps     []editOp `json:"post_ops,omitempty"`
	PostCollect bool     `json:"post_collect,omitempty"`
}

var gbCorpus = []string{"NC_001422.gb", "NC_001422_part.gb", "pBAT5.txt", "NC_000913.3.min.gb"}

// tableAgainstSpec compares the feature table of a record read back with the
// generator's description of it: the keys in order, and for every feature
// the (name, value) pairs as a multiset (how a Props value orders repeated
// names is gts's business; that none is lost, added or changed is not).
func tableAgainstSpec(sp *recSpec, seq gts.Sequence) string {
	var keys []string
	table := seq.Features()
	if g, ok := seq.(seqio.GenBank); ok {
		table = g.Table
	}
	for _, f := range table {
		keys = append(keys, f.Key)
	}
	if len(keys) != len(sp.Features) {
		return fmt.Sprintf("%d features, the record was generated with %d", len(keys), len(sp.Features))
	}
	for j, ft := range sp.Features {
		if keys[j] != ft.Key {
			return fmt.Sprintf("feature %d has the key %q, it was generated as %q", j, keys[j], ft.Key)
		}
		want := map[string]int{}
		for _, q := range ft.Quals {
			want[q.Name+"\x00"+q.Value]++
		}
		n := 0
		for _, row := range table[j].Props {
			if len(row) == 0 {
				continue
			}
			vals := row[1:]
			if len(vals) == 0 {
				vals = []string{""}
			}
			for _, v := range vals {
				want[row[0]+"\x00"+v]--
				n++
			}
		}
		for kv, c := range want {
			if c != 0 {
				parts := strings.SplitN(kv, "\x00", 2)
				return fmt.Sprintf("feature %d (%s): /%s=%q occurs %+d times too %s (%d qualifiers read, %d generated)", j, ft.Key, parts[0], parts[1], -c, map[bool]string{true: "often", false: "seldom"}[c < 0], n, len(ft.Quals))
			}
		}
	}
	return ""
}

func applyOp(seq gts.Sequence, op editOp) (out gts.Sequence, pnc string) {
	defer func() {
		if x := recover(); x != nil {
			pnc = fmt.Sprintf("%v\n%s", x, debug.Stack())
		}
	}()
	n := gts.Len(seq)
	clamp := func(i int) int {
		if n == 0 {
			return 0
		}
		if i < 0 {
			i = -i
		}
		return i % (n + 1)
	}
	gres := []byte("ttgacagct")
	for len(gres) < op.G {
		gres = append(gres, "ttgacagct"...)
	}
	guest := gts.New(nil, gts.FeatureSlice{gts.NewFeature("misc_feature", gts.Range(1, 5), gts.Props{[]string{"note", "guest"}})}, gres)
	switch op.Op {
	case "reverse":
		return gts.Reverse(seq), ""
	case "complement":
		return gts.Complement(seq), ""
	case "rotate":
		return gts.Rotate(seq, op.N), ""
	case "delete", "erase":
		i := clamp(op.I)
		k := op.N
		if i+k > n {
			k = n - i
		}
		if op.Op == "delete" {
			return gts.Delete(seq, i, k), ""
		}
		return gts.Erase(seq, i, k), ""
	case "slice":
		i := clamp(op.I)
		j := i + op.N
		if j > n {
			j = n
		}
		return gts.Slice(seq, i, j), ""
	case "insert":
		return gts.Insert(seq, clamp(op.I), guest), ""
	case "embed":
		return gts.Embed(seq, clamp(op.I), guest), ""
	case "concat":
		return gts.Concat(seq, seq), ""
	case "clear":
		return gts.WithFeatures(seq, seq.Features().Filter(gts.Key("source"))), ""
	}
	return seq, ""
}

func genOps(r *core.RNG) []editOp {
	var ops []editOp
	for i := r.Pick([]int{6, 3, 2, 1}); i > 0; i-- {
		op := editOp{Op: []string{"reverse", "complement", "rotate", "delete", "erase", "slice", "insert", "embed", "concat", "clear"}[r.Intn(10)]}
		op.I = r.Intn(400)
		op.N = r.Range(0, 120)
		if op.Op == "rotate" {
			op.N = r.Range(-50, 50)
		}
		ops = append(ops, op)
	}
	return ops
}

func genC01(r *core.RNG, tier string) *c01Scenario {
	sc := &c01Scenario{}
	n := r.Pick([]int{0, 5, 3, 2, 2})
	for i := 0; i < n; i++ {
		var src recSource
		if r.Chance(1, 6) {
			src.Corpus = gbCorpus[r.Intn(len(gbCorpus))]
			if src.Corpus == "NC_001422.gb" && r.Chance(2, 3) {
				src.Corpus = "NC_001422_part.gb"
			}
		} else {
			g := genRec(r, i)
			src.Gen = &g
			if r.Chance(1, 7) {
				src.Dialect = []string{dialects[r.Intn(len(dialects))]}
				if r.Chance(1, 4) {
					src.Dialect = append(src.Dialect, dialects[r.Intn(len(dialects))])
				}
			}
		}
		if r.Chance(1, 3) {
			src.Ops = genOps(r)
		}
		sc.Records = append(sc.Records, src)
	}
	sc.Chunks2, sc.Chunks3, sc.AltChunks = genChunks(r), genChunks(r), genChunks(r)
	if r.Chance(1, 8) {
		b := r.Intn(1500)
		sc.FailFirst = &b
	}
	if r.Chance(1, 6) {
		sc.Align = r.Range(1, 3)
	}
	sc.SameProcess = r.Chance(1, 3)
	if n >= 2 && r.Chance(1, 3) {
		for i := r.Range(1, 2); i > 0; i-- {
			op := editOp{Op: []string{"rotate", "insert", "embed", "concat", "reverse", "complement", "delete", "slice"}[r.Pick([]int{4, 4, 3, 2, 1, 1, 1, 1})]}
			op.I = r.Intn(400)
			op.N = r.Range(0, 120)
			switch op.Op {
			case "rotate":
				op.N = []int{r.Range(-50, 50), r.Range(50, 700), -r.Range(50, 700), 3000}[r.Intn(4)]
			case "insert", "embed":
				op.G = []int{0, r.Range(10, 60), r.Range(60, 900), 6000}[r.Intn(4)]
			}
			sc.PostOps = append(sc.PostOps, op)
		}
		sc.PostCollect = r.Chance(1, 2)
	}
	return sc
}

func genChunks(r *core.RNG) []int {
	switch r.Intn(7) {
	case 0:
		return nil
	case 1:
		return []int{1}
	case 2:
		return []int{4096}
	case 3:
		return []int{4095, 1, 4097}
	case 4:
		return []int{r.Range(2, 200)}
	case 5:
		return []int{7, 4096, 1, 13}
	}
	n := r.Range(2, 5)
	c := make([]int, n)
	for i := range c {
		c[i] = r.Range(1, 9000)
	}
	return c
}

func chunkClass(c []int) string {
	switch {
	case len(c) == 0:
		return "all-in-one"
	case len(c) == 1 && c[0] == 1:
		return "1-byte"
	case len(c) == 1 && c[0] >= 4096:
		return "4096"
	case len(c) == 1:
		return "small-fixed"
	}
	return "mixed"
}

var digits = regexp.MustCompile(`[0-9]+`)

func errSig(err error) string {
	if err == nil {
		return "nil"
	}
	s := digits.ReplaceAllString(err.Error(), "N")
	s = strings.ReplaceAll(s, "\n", " ")
	if len(s) > 70 {
		s = s[:70]
	}
	return s
}

// learntFormOnly reports whether two GenBank texts differ in nothing but the
// form in which qualifiers of names gts has no built-in type for are written,
// and which form it is: "flag" - an empty value as a bare flag (/name) on one
// side and as an empty quoted value (/name="") on the other; "literal" - the
// same one-line value without a double quote in it as /name=value on one side
// and /name="value" on the other. Every value is the same on both sides.
func learntFormOnly(a, b []byte) string {
	la, lb := strings.Split(string(a), "\n"), strings.Split(string(b), "\n")
	if len(la) != len(lb) {
		return ""
	}
	kind := ""
	for i := range la {
		if la[i] == lb[i] {
			continue
		}
		x, y := strings.TrimSpace(la[i]), strings.TrimSpace(lb[i])
		if len(y) < len(x) {
			x, y = y, x
		}
		if !strings.HasPrefix(x, "/") {
			return ""
		}
		name := strings.TrimPrefix(strings.SplitN(x, "=", 2)[0], "/")
		if qualKind(name) != "unknown-name" {
			return ""
		}
		switch {
		case x == "/"+name && y == x+"=\"\"":
			if kind == "" {
				kind = "flag"
			}
		case strings.HasPrefix(x, "/"+name+"=") && !strings.HasPrefix(x, "/"+name+"=\"") &&
			y == "/"+name+"=\""+strings.ReplaceAll(strings.TrimPrefix(x, "/"+name+"="), "\"", "\"\"")+"\"":
			// the same value bare and between quotes (a quote inside it doubled)
			kind = "literal"
		default:
			return ""
		}
	}
	return kind
}

// firstDiffField names the line (its leading keyword) at which two GenBank
// texts first differ.
func firstDiffField(a, b []byte) string {
	la, lb := strings.Split(string(a), "\n"), strings.Split(string(b), "\n")
	field := "?"
	for i := 0; i < len(la) && i < len(lb); i++ {
		if w := strings.Fields(la[i]); len(w) > 0 && len(la[i]) > 0 && la[i][0] != ' ' {
			field = w[0]
		} else if len(w) > 0 && strings.HasPrefix(la[i], "     ") && !strings.HasPrefix(la[i], "      ") {
			field = "feature:" + w[0]
		} else if len(w) > 0 && strings.HasPrefix(w[0], "/") {
			q := strings.TrimPrefix(strings.SplitN(w[0], "=", 2)[0], "/")
			field = "qualifier:" + qualKind(q)
		}
		if la[i] != lb[i] {
			return field
		}
	}
	if len(la) != len(lb) {
		return "length"
	}
	return "none"
}

type c01Run struct {
	sc  *c01Scenario
	res *core.Result
	vs  []core.Violation
}

func (x *c01Run) violate(class, sig, detail string) {
	b, _ := json.Marshal(x.sc)
	x.vs = append(x.vs, core.Violation{Class: class, Signature: sig, Detail: detail, Scenario: b})
}

func (x *c01Run) key(s string) {
	for _, k := range x.res.Keys {
		if k == s {
			return
		}
	}
	x.res.Keys = append(x.res.Keys, s)
}

func shapeOf(s recSource, seq gts.Sequence) string {
	src := "gen"
	if s.Corpus != "" {
		src = "corpus"
	}
	ops := "raw"
	if len(s.Ops) > 0 {
		ops = s.Ops[len(s.Ops)-1].Op
	}
	nf := len(seq.Features())
	fc := "f0"
	switch {
	case nf == 1:
		fc = "f1"
	case nf > 1:
		fc = "f2+"
	}
	n := gts.Len(seq)
	lc := "len0"
	switch {
	case n == 0:
	case n%60 == 0:
		lc = "len%60=0"
	case n%10 == 0:
		lc = "len%10=0"
	default:
		lc = "len-other"
	}
	contig := ""
	if f, ok := fieldsOf(seq); ok && f.Contig.Accession != "" {
		contig = "|contig"
	}
	return src + "|" + ops + "|" + fc + "|" + lc + contig
}

func (x *c01Run) exec() {
	core.Tick()
	sc := x.sc
	res := x.res
	n := len(sc.Records)
	// P0: corpus records enter through gts's own reader, in a process of their own
	vals := make([]gts.Sequence, n)
	foreign := make([]bool, n)
	foreignText := make([][]byte, n)
	for i, s := range sc.Records {
		if s.Corpus == "" && len(s.Dialect) > 0 && s.Gen != nil {
			processBoundary() // the foreign text itself is prepared outside the simulated processes
			text, err, pnc := writeSeq(s.Gen.build(), seqio.GenBankFile)
			if err != nil || pnc != "" {
				continue
			}
			for k, d := range s.Dialect {
				text = applyDialect(text, d, s.Gen.SeqSeed+uint64(k))
			}
			foreignText[i] = text
			continue
		}
	}
	processBoundary()
	for i, s := range sc.Records {
		if text := foreignText[i]; text != nil {
			if !sc.SameProcess {
				processBoundary()
			}
			r := scanAll(text, simpipe.Spec{Chunks: sc.Chunks3, CutAt: -1}, 0)
			res.SimOps += r.Reads
			res.Evaluations++
			if r.Panic != "" {
				x.violate("panic", panicSite(r.Panic), fmt.Sprintf("reader panicked on a record in dialect %v: %s", s.Dialect, firstLine(r.Panic)))
				return
			}
			if r.Err != nil || len(r.Seqs) != 1 {
				// this layout is not one gts reads: nothing to round-trip
				res.Extended["foreign-layout-not-read:"+strings.Join(s.Dialect, "+")]++
				continue
			}
			vals[i] = r.Seqs[0]
			foreign[i] = true
			res.Probes["foreign_layout_records_read"]++
			x.key("foreign|" + strings.Join(s.Dialect, "+"))
		}
	}
	for i, s := range sc.Records {
		if s.Corpus == "" {
			continue
		}
		if !sc.SameProcess {
			processBoundary()
		}
		r := scanAll(corpus.Get(s.Corpus), simpipe.Spec{CutAt: -1}, 0)
		res.SimOps += r.Reads
		if r.Panic != "" || r.Err != nil || len(r.Seqs) == 0 {
			res.Harness = fmt.Sprintf("c01: corpus file %s does not scan: err=%v panic=%s", s.Corpus, r.Err, firstLine(r.Panic))
			return
		}
		vals[i] = r.Seqs[0]
	}
	// P1: build, edit, write
	if !sc.SameProcess {
		processBoundary()
	} else {
		res.Probes["reader_and_writer_in_one_process"]++
	}
	outs := make([][]byte, n)
	skip := make([]bool, n)
	if sc.FailFirst != nil && n > 0 && sc.Records[0].Gen != nil {
		sink := &simpipe.Writer{Limit: *sc.FailFirst}
		func() {
			defer func() { recover() }()
			seqio.NewWriter(sink, seqio.GenBankFile).WriteSeq(sc.Records[0].Gen.build())
		}()
		if res.Faults == nil {
			res.Faults = map[string]int{}
		}
		res.Faults["writer-sink-fails-after-B-bytes"]++
		x.key("failed-write-first")
	}
	for i, s := range sc.Records {
		if s.Gen != nil && !foreign[i] {
			if len(s.Dialect) > 0 {
				skip[i] = true // the foreign text was not readable
				continue
			}
			vals[i] = s.Gen.build()
		}
		for _, op := range s.Ops {
			v, pnc := applyOp(vals[i], op)
			if pnc != "" {
				// an edit operation that panics is another property's business
				res.Extended["edit-op-panicked:"+op.Op+":"+panicSite(pnc)]++
				skip[i] = true
				break
			}
			vals[i] = v
		}
		if skip[i] {
			continue
		}
		out, err, pnc := writeSeq(vals[i], seqio.GenBankFile)
		if pnc != "" {
			res.Extended["writer-panicked:"+panicSite(pnc)]++
			skip[i] = true
			continue
		}
		if err != nil {
			res.Extended["writer-error:"+errSig(err)]++
			skip[i] = true
			continue
		}
		outs[i] = out
	}
	var idx []int
	var s1 []byte
	for i := range outs {
		if !skip[i] {
			idx = append(idx, i)
			s1 = append(s1, outs[i]...)
		}
	}
	if len(idx) == 0 {
		return
	}
	for _, i := range idx {
		x.key("shape|" + shapeOf(sc.Records[i], vals[i]))
	}
	if os.Getenv("VERIF_DEBUG") != "" {
		fmt.Fprintf(os.Stderr, "---- stream written by P1 ----\n%s---- end ----\n", s1)
	}
	// P2
	chunks2 := sc.Chunks2
	if sc.Align != 0 {
		var bounds []int
		off := 0
		for _, i := range idx {
			off += len(outs[i])
			bounds = append(bounds, off)
		}
		chunks2 = simpipe.AlignedChunks(bounds, sc.Align-2, 4096)
		res.Probes["record_aligned_chunk_schedules"]++
	}
	processBoundary()
	r2 := scanAll(s1, simpipe.Spec{Chunks: chunks2, CutAt: -1}, 0)
	res.SimOps += r2.Reads
	res.Evaluations++
	x.key(fmt.Sprintf("stream|n=%d|chunks=%s|registry-after=%s", len(idx), chunkClass(sc.Chunks2), registryState()))
	if registryState() != "pristine" && len(idx) > 1 {
		res.Probes["unknown_qualifier_learned_in_multi_record_process"]++
	}
	if r2.Panic != "" {
		x.violate("panic", panicSite(r2.Panic), "reader panicked on a stream gts wrote: "+firstLine(r2.Panic))
		return
	}
	if r2.Err != nil || len(r2.Seqs) != len(idx) {
		which := len(r2.Seqs)
		sig := errSig(r2.Err)
		if which < len(idx) {
			sig += "|" + closureHint(vals[idx[which]])
		}
		x.violate("closure", sig, fmt.Sprintf("gts wrote %d records; its own reader returned %d and err=%v (first unread record: %s)", len(idx), len(r2.Seqs), r2.Err, describe(sc, idx, which)))
		return
	}
	outs2 := make([][]byte, len(idx))
	var s2 []byte
	for k, i := range idx {
		out, err, pnc := writeSeq(r2.Seqs[k], seqio.GenBankFile)
		if pnc != "" || err != nil {
			x.violate("fixed-point", "rewrite-failed", fmt.Sprintf("record %d was read back but cannot be written again: err=%v panic=%s", i, err, firstLine(pnc)))
			return
		}
		outs2[k] = out
		s2 = append(s2, out...)
		if os.Getenv("VERIF_DEBUG") != "" && !bytes.Equal(out, outs[i]) {
			fmt.Fprintf(os.Stderr, "---- record %d re-written by P2 ----\n%s---- end ----\n", i, out)
		}
		res.Evaluations++
		if !bytes.Equal(out, outs[i]) {
			if form := learntFormOnly(outs[i], out); form != "" {
				x.violate("fixed-point", "learnt-"+form+"-form", fmt.Sprintf("record %d: the second output differs from the first only in the form of qualifiers of a name without built-in type: /name versus /name=\"\" (flag), /name=value versus /name=\"value\" (literal); every value is the same (the form depends on what the writing process had read before)", i))
			} else {
				x.violate("fixed-point", firstDiffField(outs[i], out), fmt.Sprintf("record %d: write-read-write differs from the first output at field %s", i, firstDiffField(outs[i], out)))
			}
		}
		// L3 fidelity against the value that was written
		{
			structural := sc.Records[i].Gen != nil && len(sc.Records[i].Ops) == 0 && len(sc.Records[i].Dialect) == 0
			if field, detail := compareRecords(vals[i], r2.Seqs[k], structural); field != "" {
				x.violate("fidelity:"+field, srcKind(sc.Records[i]), fmt.Sprintf("record %d read back differs from what was written in %s: %s", i, field, detail))
			}
		}
		// ... and against the generator's own description of the table: the
		// comparison above looks at two gts values through gts's accessors
		if sp := sc.Records[i]; sp.Gen != nil && len(sp.Ops) == 0 && len(sp.Dialect) == 0 {
			res.Probes["tables_compared_with_the_generators_description"]++
			if msg := tableAgainstSpec(sp.Gen, r2.Seqs[k]); msg != "" {
				x.violate("fidelity:table-against-spec", "gen", fmt.Sprintf("record %d read back: %s", i, msg))
			}
		}
		// ... and against the residues the record is made of, known without
		// asking gts: both values above answer Bytes() through the same code
		if want, ok := modelResidues(sc.Records[i]); ok {
			res.Probes["residues_compared_with_letters_known_without_gts"]++
			if got := r2.Seqs[k].Bytes(); !bytes.Equal(got, want) {
				x.violate("fidelity:residues", srcKind(sc.Records[i])+":model", fmt.Sprintf("record %d is made of %d residues (the generator's letters, or the letters of the corpus file's ORIGIN block, taken through a model of the edits); read back, gts says it holds %d", i, len(want), len(got)))
			}
		}
	}
	// P3
	processBoundary()
	r3 := scanAll(s2, simpipe.Spec{Chunks: sc.Chunks3, CutAt: -1}, 0)
	res.SimOps += r3.Reads
	res.Evaluations++
	if r3.Panic != "" {
		x.violate("panic", panicSite(r3.Panic), "reader panicked on the re-written stream: "+firstLine(r3.Panic))
		return
	}
	if r3.Err != nil || len(r3.Seqs) != len(idx) {
		x.violate("closure", "second-generation|"+errSig(r3.Err), fmt.Sprintf("the re-written stream of %d records reads back as %d, err=%v", len(idx), len(r3.Seqs), r3.Err))
	} else {
		for k := range idx {
			out, err, pnc := writeSeq(r3.Seqs[k], seqio.GenBankFile)
			if pnc != "" || err != nil || !bytes.Equal(out, outs2[k]) {
				if form := learntFormOnly(outs2[k], out); pnc == "" && err == nil && form != "" {
					x.violate("fixed-point", "learnt-"+form+"-form", fmt.Sprintf("record %d: third write differs from second only in the form of qualifiers of a name without built-in type", idx[k]))
				} else {
					x.violate("fixed-point", "third-generation:"+firstDiffField(outs2[k], out), fmt.Sprintf("record %d: third write differs from second (err=%v)", idx[k], err))
				}
			}
		}
	}
	// L4 framing: each record alone, in a fresh process
	for k, i := range idx {
		processBoundary()
		ra := scanAll(outs[i], simpipe.Spec{CutAt: -1}, 0)
		res.SimOps += ra.Reads
		res.Evaluations++
		if ra.Panic != "" || ra.Err != nil || len(ra.Seqs) != 1 {
			continue // closure of the single record is judged above when it is first in a stream
		}
		if field, detail := compareRecords(ra.Seqs[0], r2.Seqs[k], false); field != "" {
			x.violate("framing", field, fmt.Sprintf("record %d read inside a %d-record stream differs from the same bytes read alone in a fresh process, in %s: %s", i, len(idx), field, detail))
		}
	}
	// L5 chunk invariance
	processBoundary()
	r5 := scanAll(s1, simpipe.Spec{Chunks: sc.AltChunks, CutAt: -1}, 0)
	res.SimOps += r5.Reads
	res.Evaluations++
	if r5.Panic != "" {
		x.violate("panic", panicSite(r5.Panic), "reader panicked under another chunk schedule: "+firstLine(r5.Panic))
	} else if (r5.Err == nil) != (r2.Err == nil) || len(r5.Seqs) != len(r2.Seqs) {
		x.violate("chunk-variance", "count", fmt.Sprintf("chunks %v: %d records err=%v; chunks %v: %d records err=%v", sc.Chunks2, len(r2.Seqs), r2.Err, sc.AltChunks, len(r5.Seqs), r5.Err))
	} else {
		for k := range r5.Seqs {
			out, _, _ := writeSeq(r5.Seqs[k], seqio.GenBankFile)
			if !bytes.Equal(out, outs2[k]) {
				x.violate("chunk-variance", firstDiffField(outs2[k], out), fmt.Sprintf("record %d differs between chunk schedules %v and %v", idx[k], sc.Chunks2, sc.AltChunks))
			}
		}
	}
	if len(sc.Chunks2) > 0 || len(sc.AltChunks) > 0 {
		res.Probes["stream_read_under_two_chunk_schedules"]++
	}
	x.editIndependence(s1, outs, idx, chunks2)
}

// editIndependence is L6: the records one scanner returns from a stream are
// independent values - editing one (also in ways that grow it) changes neither
// the others nor what the scanner returns next.
func (x *c01Run) editIndependence(s1 []byte, outs [][]byte, idx []int, chunks []int) {
	sc, res := x.sc, x.res
	if len(sc.PostOps) == 0 || len(idx) < 2 {
		return
	}
	edit := func(v gts.Sequence) ([]byte, string) {
		for _, op := range sc.PostOps {
			w, pnc := applyOp(v, op)
			if pnc != "" {
				return nil, "panic:" + panicSite(pnc)
			}
			v = w
		}
		out, err, pnc := writeSeq(v, seqio.GenBankFile)
		if pnc != "" {
			return nil, "panic:" + panicSite(pnc)
		}
		if err != nil {
			return nil, "error:" + errSig(err)
		}
		return out, ""
	}
	refs := make([][]byte, len(idx))
	refFail := make([]string, len(idx))
	for k, i := range idx {
		processBoundary()
		ra := scanAll(outs[i], simpipe.Spec{CutAt: -1}, 0)
		res.SimOps += ra.Reads
		if ra.Panic != "" || ra.Err != nil || len(ra.Seqs) != 1 {
			refFail[k] = "unreadable"
			continue
		}
		refs[k], refFail[k] = edit(ra.Seqs[0])
	}
	processBoundary()
	got := make([][]byte, 0, len(idx))
	gotFail := make([]string, 0, len(idx))
	var scanErr error
	pnc := func() (pnc string) {
		defer func() {
			if r := recover(); r != nil {
				pnc = fmt.Sprintf("%v\n%s", r, debug.Stack())
			}
		}()
		rd := simpipe.New(s1, simpipe.Spec{Chunks: chunks, CutAt: -1})
		scn := seqio.NewAutoScanner(rd)
		var held []gts.Sequence
		for scn.Scan() {
			if sc.PostCollect {
				held = append(held, scn.Value())
				continue
			}
			o, f := edit(scn.Value())
			got, gotFail = append(got, o), append(gotFail, f)
		}
		scanErr = scn.Err()
		for _, v := range held {
			o, f := edit(v)
			got, gotFail = append(got, o), append(gotFail, f)
		}
		res.SimOps += rd.Reads
		return ""
	}()
	res.Evaluations++
	res.Probes["stream_records_edited_by_the_reading_process"]++
	mode := "streaming"
	if sc.PostCollect {
		mode = "collected"
	}
	x.key("post-ops|" + mode + "|" + sc.PostOps[0].Op)
	sig := mode + ":" + sc.PostOps[len(sc.PostOps)-1].Op
	if pnc != "" {
		x.violate("edit-independence", sig, "the process that reads the stream and edits its records panicked outside an edit operation: "+firstLine(pnc))
		return
	}
	if scanErr != nil || len(got) != len(idx) {
		x.violate("edit-independence", sig, fmt.Sprintf("a stream of %d records that reads back completely when its records are left alone gave %d records and err=%v when each record was edited (%s) by the reading process", len(idx), len(got), scanErr, mode))
		return
	}
	for k := range idx {
		if refFail[k] != "" {
			continue // the operations do not apply to this record even when it is alone: another property's business
		}
		if gotFail[k] != "" {
			x.violate("edit-independence", sig, fmt.Sprintf("record %d: the edit operations work on the record read alone but fail (%s) on the same record read from the stream", idx[k], gotFail[k]))
			continue
		}
		if form := learntFormOnly(refs[k], got[k]); form != "" {
			// the known dependence of the written form on what the process has read before
			x.violate("fixed-point", "learnt-"+form+"-form", fmt.Sprintf("record %d: written by the process that read the whole stream it differs from what a process that read only this record writes, only in the form of qualifiers of a name without built-in type; every value is the same", idx[k]))
			continue
		}
		if !bytes.Equal(got[k], refs[k]) {
			x.violate("edit-independence", sig, fmt.Sprintf("record %d: edited after being read from a %d-record stream (%s) it is written differently (first difference in %s) than when its own bytes are read alone in a fresh process and edited the same way", idx[k], len(idx), mode, firstDiffField(refs[k], got[k])))
		}
	}
}

func srcKind(s recSource) string {
	k := "gen"
	if s.Corpus != "" {
		k = "corpus"
	}
	if len(s.Dialect) > 0 {
		k = "foreign(" + strings.Join(s.Dialect, "+") + ")"
	}
	if len(s.Ops) > 0 {
		k += "+" + s.Ops[len(s.Ops)-1].Op
	}
	return k
}

func closureHint(seq gts.Sequence) string {
	if len(seq.Features()) == 0 {
		return "empty-feature-table"
	}
	return "features"
}

func describe(sc *c01Scenario, idx []int, k int) string {
	if k >= len(idx) {
		return "none"
	}
	return srcKind(sc.Records[idx[k]])
}

// ---- engine ----

type C01 struct{}

func (C01) Meta() core.Meta {
	return core.Meta{
		Property:   "C01",
		Level:      "exploration",
		NonVacuous: []string{"stream_records_edited_by_the_reading_process", "stream_read_under_two_chunk_schedules", "unknown_qualifier_learned_in_multi_record_process", "foreign_layout_records_read", "reader_and_writer_in_one_process"},
		Rule: "Each simulated run draws a stream of 1-4 records from its seed: API-built GenBank records from a generator over the writable domain (all header fields " +
			"present/absent, valid calendar dates, 0-4 features with every location kind, quoted/literal/toggle/multi-line/repeated/unknown-name qualifiers, lengths sweeping " +
			"mod 10 and mod 60, CONTIG with and without ORIGIN), corpus records (which enter through gts's own reader in a process of their own), and either of those pushed " +
			"through 0-3 seeded gts edit operations. Simulated process P1 writes them with the real writer; P2 (fresh process-global qualifier registries) reads the stream from " +
			"a simulated pipe under a seeded chunk schedule and writes again; P3 does the same to P2's output; each record is also read alone in a fresh process, and the stream " +
			"is read again under a second chunk schedule. Oracles: closure (N records, no error), byte fixed point over three generations, field-by-field fidelity against the " +
			"value written, framing (in-stream value == stand-alone value), chunk invariance, edit independence (a process that reads the stream with one scanner and edits every " +
			"record, as it arrives or after collecting all, writes what the same edits give for each record read alone). A case is one oracle evaluation; it is non-trivial when its state key is new.",
		StateRule: "distinct (record source, last edit op, feature-count class, length class, contig) shapes and (records in stream, chunk class, registry state after the read) tuples",
		Assumptions: []string{
			"the generator stays inside the writable domain described in DESIGN.md §6 and Appendix C; generator corrections are logged there",
			"records the writer refuses or panics on are outside 'records gts can write' and are tallied, not judged",
			"sliced records (ACCESSION ... REGION) are judged for closure and fixed point only",
		},
		Real:       []string{"seqio GenBank writer and formatter", "seqio.NewAutoScanner / GenBankParser / INSDCTableParser / QualifierParser", "gts edit operations", "pars"},
		Stub:       []string{"the pipe between processes (simpipe: seeded chunk schedule)", "process boundary (qualifier registries restored to their init-time value)"},
		NotDecided: []string{"the record content dimension is seeded input generation, not simulation; the schedule dimension (chunking, record order, process boundaries) is what the simulator adds"},
	}
}

func (C01) Runs(tier string) int {
	if tier == "thorough" {
		return 400000
	}
	return 24000
}

func (C01) RunSeed(tier string, seed uint64, idx int) *core.Result {
	r := core.NewRNG(seed)
	res := &core.Result{Seed: seed, Probes: map[string]int{"unknown_qualifier_learned_in_multi_record_process": 0, "stream_read_under_two_chunk_schedules": 0}, Extended: map[string]int{}}
	sc := genC01(r, tier)
	core.Current, core.CurrentSig = sc, "c01"
	x := &c01Run{sc: sc, res: res}
	x.exec()
	res.Violations = x.vs
	res.Digest = digestOf(res)
	if idx%400 == 0 {
		res.Sample, _ = json.Marshal(sc)
	}
	return res
}

func (C01) Replay(raw json.RawMessage) ([]core.Violation, string, error) {
	var sc c01Scenario
	if err := json.Unmarshal(raw, &sc); err != nil {
		return nil, "", err
	}
	res := &core.Result{Probes: map[string]int{}, Extended: map[string]int{}}
	x := &c01Run{sc: &sc, res: res}
	x.exec()
	if res.Harness != "" {
		return nil, "", fmt.Errorf("%s", res.Harness)
	}
	res.Violations = x.vs
	return x.vs, digestOf(res), nil
}

func (C01) Candidates(raw json.RawMessage) []json.RawMessage {
	var sc c01Scenario
	if json.Unmarshal(raw, &sc) != nil {
		return nil
	}
	var out []json.RawMessage
	emit := func(c c01Scenario) {
		b, _ := json.Marshal(c)
		out = append(out, b)
	}
	cl := func() c01Scenario {
		b, _ := json.Marshal(sc)
		var c c01Scenario
		json.Unmarshal(b, &c)
		return c
	}
	for i := range sc.Records {
		if len(sc.Records) > 1 {
			c := cl()
			c.Records = append(c.Records[:i], c.Records[i+1:]...)
			emit(c)
		}
	}
	for _, f := range []func(*c01Scenario){
		func(c *c01Scenario) { c.FailFirst = nil },
		func(c *c01Scenario) { c.Align = 0 },
		func(c *c01Scenario) { c.SameProcess = false },
		func(c *c01Scenario) { c.PostOps = nil },
		func(c *c01Scenario) {
			if len(c.PostOps) > 1 {
				c.PostOps = c.PostOps[1:]
			}
		},
		func(c *c01Scenario) {
			if len(c.PostOps) > 1 {
				c.PostOps = c.PostOps[:1]
			}
		},
		func(c *c01Scenario) { c.PostCollect = false },
		func(c *c01Scenario) { c.Chunks2 = nil }, func(c *c01Scenario) { c.Chunks3 = nil }, func(c *c01Scenario) { c.AltChunks = nil },
	} {
		c := cl()
		f(&c)
		emit(c)
	}
	for i, s := range sc.Records {
		for j := range s.Ops {
			c := cl()
			c.Records[i].Ops = append(c.Records[i].Ops[:j], c.Records[i].Ops[j+1:]...)
			emit(c)
		}
		if s.Gen == nil {
			continue
		}
		for j := range s.Dialect {
			c := cl()
			c.Records[i].Dialect = append(append([]string(nil), s.Dialect[:j]...), s.Dialect[j+1:]...)
			emit(c)
		}
		for _, cand := range shrinkRec(*s.Gen) {
			c := cl()
			g := cand
			c.Records[i].Gen = &g
			emit(c)
		}
	}
	return out
}

// shrinkRec proposes simpler records.
func shrinkRec(s recSpec) []recSpec {
	var out []recSpec
	cp := func() recSpec {
		b, _ := json.Marshal(s)
		var c recSpec
		json.Unmarshal(b, &c)
		return c
	}
	for i := range s.Features {
		c := cp()
		c.Features = append(c.Features[:i], c.Features[i+1:]...)
		out = append(out, c)
	}
	for i, f := range s.Features {
		for j := range f.Quals {
			c := cp()
			c.Features[i].Quals = append(c.Features[i].Quals[:j], c.Features[i].Quals[j+1:]...)
			out = append(out, c)
		}
		if f.Loc.Kind != "range" {
			c := cp()
			c.Features[i].Loc = locSpec{Kind: "range", A: 0, B: 2}
			out = append(out, c)
		}
	}
	type mod func(*recSpec) bool
	for _, m := range []mod{
		func(c *recSpec) bool { ok := len(c.Refs) > 0; c.Refs = nil; return ok },
		func(c *recSpec) bool { ok := len(c.Comments) > 0; c.Comments = nil; return ok },
		func(c *recSpec) bool { ok := len(c.Extra) > 0; c.Extra = nil; return ok },
		func(c *recSpec) bool { ok := len(c.DBLink) > 0; c.DBLink = nil; return ok },
		func(c *recSpec) bool { ok := len(c.Keywords) > 0; c.Keywords = nil; return ok },
		func(c *recSpec) bool { ok := len(c.Taxon) > 0; c.Taxon = nil; return ok },
		func(c *recSpec) bool {
			ok := c.Species != "" || c.Organism != ""
			c.Species, c.Organism = "", ""
			return ok
		},
		func(c *recSpec) bool { ok := c.Contig != nil; c.Contig = nil; return ok },
		func(c *recSpec) bool { ok := c.Definition != "x"; c.Definition = "x"; return ok },
		func(c *recSpec) bool { ok := c.SeqLen > 12; c.SeqLen = 12; return ok },
		func(c *recSpec) bool { ok := c.Division != ""; c.Division = ""; return ok },
		func(c *recSpec) bool { ok := c.Accession != ""; c.Accession, c.Version = "", ""; return ok },
		func(c *recSpec) bool { ok := c.Alphabet != ""; c.Alphabet = ""; return ok },
	} {
		c := cp()
		if m(&c) {
			out = append(out, c)
		}
	}
	return out
}

func digestOf(res *core.Result) string {
	b, _ := json.Marshal(struct {
		E int
		K []string
		V []core.Violation
		X map[string]int
	}{res.Evaluations, res.Keys, res.Violations, res.Extended})
	return fmt.Sprintf("%x", sha256sum(b))
}

func containsStr(ss []string, s string) bool {
	for _, x := range ss {
		if x == s {
			return true
		}
	}
	return false
}
