package e2

import (
	"bytes"
	"encoding/json"
	"fmt"
	"os"
	"runtime"
	"runtime/debug"
	"strconv"
	"strings"
	"syscall"
	"time"
	"unsafe"

	"github.com/go-gts/gts"
	"github.com/go-gts/gts/internal/verifsim/core"
	"github.com/go-gts/gts/internal/verifsim/corpus"
	"github.com/go-gts/gts/internal/verifsim/simpipe"
	"github.com/go-gts/gts/seqio"
	"github.com/go-pars/pars"
)

type streamPart struct {
	Corpus string    `json:"corpus,omitempty"`
	Gen    *recSpec  `json:"gen,omitempty"`
	Fasta  *fastaRec `json:"fasta,omitempty"`
	Raw    string    `json:"raw,omitempty"`
}

// textEdit is a structure-aware mutation of the stream text.
type textEdit struct {
	Op   string `json:"op"`
	Line int    `json:"line,omitempty"`
	At   int    `json:"at,omitempty"`
	Mask int    `json:"mask,omitempty"`
	N    int    `json:"n,omitempty"`
	Text string `json:"text,omitempty"`
}

type c07Scenario struct {
	Kind      string       `json:"kind"` // stream | string
	Parts     []streamPart `json:"parts,omitempty"`
	CRLF      bool         `json:"crlf,omitempty"`
	Edits     []textEdit   `json:"edits,omitempty"`
	Pipe      simpipe.Spec `json:"pipe"`
	AltChunks []int        `json:"alt_chunks,omitempty"`
	CheckAlt  bool         `json:"check_alt,omitempty"`
	Rescan    bool         `json:"rescan,omitempty"`
	Func      string       `json:"func,omitempty"`
	Input     string       `json:"input,omitempty"`
	Shape     string       `json:"shape,omitempty"` // kind "scaling": which part of a record is scaled
	N         int          `json:"n,omitempty"`     // kind "scaling": units at the small size (the large one has 4x)
}

func (p streamPart) bytes() (out []byte, genbank bool) {
	switch {
	case p.Corpus != "":
		return corpus.Get(p.Corpus), !strings.HasSuffix(p.Corpus, ".fasta")
	case p.Gen != nil:
		processBoundary()
		b, err, pnc := writeSeq(p.Gen.build(), seqio.GenBankFile)
		if err != nil || pnc != "" {
			return nil, true
		}
		return b, true
	case p.Fasta != nil:
		b, _, _ := writeSeq(seqio.Fasta{Desc: p.Fasta.Desc, Data: p.Fasta.residues()}, seqio.FastaFile)
		return b, false
	}
	return []byte(p.Raw), strings.HasPrefix(p.Raw, "LOCUS")
}

// material is the concrete stream of a scenario with what the oracles need to
// know about it.
type material struct {
	data        []byte
	bounds      []int  // record boundaries b0=0 < b1 < ... (ends of parts)
	genbank     bool   // every part is a GenBank record
	emptyDBLink string // an entry of a DBLINK field was left without a value (which form), and nothing else was edited
	t4          bool   // only length-consistency edits were applied
	declared    int    // declared LOCUS length of the first record after edits (t4)
	actual      int    // residues in its ORIGIN block after edits (t4)
	edited      bool
}

func splitLines(b []byte) []string { return strings.SplitAfter(string(b), "\n") }

func originRange(lines []string) (int, int) {
	start := -1
	for i, l := range lines {
		if strings.HasPrefix(l, "ORIGIN") {
			start = i + 1
		}
		if start >= 0 && strings.HasPrefix(l, "//") {
			return start, i
		}
	}
	return -1, -1
}

func countResidues(lines []string) int {
	n := 0
	for _, l := range lines {
		f := strings.Fields(l)
		for _, w := range f[min(1, len(f)):] {
			n += len(w)
		}
	}
	return n
}

func min(a, b int) int {
	if a < b {
		return a
	}
	return b
}

var t4Ops = map[string]bool{"set-length": true, "del-origin-line": true, "dup-origin-line": true, "cut-origin-line": true, "surplus-after-blank": true}

func (sc *c07Scenario) build() *material {
	m := &material{genbank: true, bounds: []int{0}}
	for _, p := range sc.Parts {
		b, gb := p.bytes()
		if !gb {
			m.genbank = false
		}
		m.data = append(m.data, b...)
		m.bounds = append(m.bounds, len(m.data))
	}
	if len(sc.Edits) > 0 {
		m.edited = true
		m.t4 = m.genbank && len(sc.Parts) == 1
		lines := splitLines(m.data)
		for _, e := range sc.Edits {
			if !t4Ops[e.Op] {
				m.t4 = false
			}
			before := len(lines)
			joined := strings.Join(lines, "")
			lines = applyEdit(lines, e)
			if e.Op == "empty-dblink" && len(sc.Edits) == 1 && before == len(lines) && joined != strings.Join(lines, "") {
				m.emptyDBLink = []string{"nothing-after-colon", "one-blank-after-colon", "blanks-after-colon"}[e.N%3]
			}
		}
		m.data = []byte(strings.Join(lines, ""))
		m.bounds = nil
		if m.t4 {
			ls := splitLines(m.data)
			m.declared = -1
			if len(ls) > 0 {
				f := strings.Fields(ls[0])
				if len(f) > 2 {
					if v, err := strconv.Atoi(f[2]); err == nil {
						m.declared = v
					}
				}
			}
			a, b := originRange(ls)
			if a >= 0 {
				m.actual = countResidues(ls[a:b])
			} else {
				m.t4 = false
			}
			if m.declared == -1 && !strings.Contains(ls[0], " -1 bp") {
				m.t4 = false // the declared length could not be read off the text
			}
		}
	}
	if sc.CRLF {
		m.data = bytes.ReplaceAll(m.data, []byte("\n"), []byte("\r\n"))
		if m.bounds != nil {
			// recompute boundaries: each part grew by its number of newlines
			nb := []int{0}
			off := 0
			for _, p := range sc.Parts {
				b, _ := p.bytes()
				off += len(b) + bytes.Count(b, []byte("\n"))
				nb = append(nb, off)
			}
			m.bounds = nb
		}
	}
	return m
}

func applyEdit(lines []string, e textEdit) []string {
	n := len(lines)
	if n == 0 {
		return lines
	}
	l := e.Line % n
	if l < 0 {
		l = -l
	}
	switch e.Op {
	case "del-line":
		return append(append([]string(nil), lines[:l]...), lines[l+1:]...)
	case "dup-line":
		out := append([]string(nil), lines[:l+1]...)
		out = append(out, lines[l])
		return append(out, lines[l+1:]...)
	case "swap-lines":
		if l+1 < n {
			out := append([]string(nil), lines...)
			out[l], out[l+1] = out[l+1], out[l]
			return out
		}
	case "shrink-indent":
		out := append([]string(nil), lines...)
		k := e.N
		for k > 0 && strings.HasPrefix(out[l], " ") {
			out[l] = out[l][1:]
			k--
		}
		return out
	case "grow-indent", "continuation-ize":
		out := append([]string(nil), lines...)
		out[l] = strings.Repeat(" ", e.N) + out[l]
		return out
	case "drop-value":
		out := append([]string(nil), lines...)
		f := strings.Fields(out[l])
		if len(f) > 0 {
			i := strings.Index(out[l], f[0]) + len(f[0])
			keep := e.N
			if i+keep > len(strings.TrimRight(out[l], "\r\n")) {
				keep = 0
			}
			out[l] = out[l][:i+keep] + "\n"
		}
		return out
	case "long-name":
		out := append([]string(nil), lines...)
		f := strings.Fields(out[l])
		if len(f) > 0 && !strings.HasPrefix(out[l], " ") {
			out[l] = strings.Replace(out[l], f[0], f[0]+e.Text, 1)
		}
		return out
	case "replace-line":
		out := append([]string(nil), lines...)
		out[l] = e.Text + "\n"
		return out
	case "flip":
		s := []byte(strings.Join(lines, ""))
		if len(s) > 0 {
			s[e.At%len(s)] ^= byte(e.Mask)
		}
		return splitLines(s)
	case "bad-date":
		out := append([]string(nil), lines...)
		for i := 0; i < n; i++ {
			if strings.HasPrefix(out[i], "LOCUS") {
				f := strings.Fields(out[i])
				if len(f) > 0 {
					out[i] = strings.Replace(out[i], f[len(f)-1], e.Text, 1)
				}
				if i >= l {
					break
				}
			}
		}
		return out
	case "inflate-number":
		out := append([]string(nil), lines...)
		for i := l; i < n; i++ {
			if strings.HasPrefix(out[i], "REFERENCE") {
				f := strings.Fields(out[i])
				if len(f) > 1 {
					out[i] = strings.Replace(out[i], f[1], f[1]+e.Text, 1)
				}
				break
			}
		}
		return out
	case "empty-dblink":
		// one entry of the DBLINK field loses its value
		out := append([]string(nil), lines...)
		var entries []int
		for i := 0; i < n; i++ {
			if strings.HasPrefix(out[i], "DBLINK") {
				entries = append(entries, i)
				for j := i + 1; j < n && strings.HasPrefix(out[j], "            ") && strings.Contains(out[j], ":"); j++ {
					entries = append(entries, j)
				}
				break
			}
		}
		if len(entries) == 0 {
			return lines
		}
		k := entries[e.Line%len(entries)]
		if c := strings.Index(out[k][12:], ":"); c >= 0 {
			out[k] = out[k][:12+c+1] + []string{"", " ", "   "}[e.N%3] + "\n"
		}
		return out
	case "surplus-after-blank":
		// LOCUS declares what the first k lines of the block hold; the rest
		// follows behind a line that is empty or holds only a tab or blanks
		a, b := originRange(lines)
		if a < 0 || b-a < 2 {
			return lines
		}
		k := 1 + e.Line%(b-a-1)
		keep := countResidues(lines[a : a+k])
		out := append([]string(nil), lines[:a+k]...)
		out = append(out, []string{"\n", "\t\n", "   \n"}[e.N%3])
		out = append(out, lines[a+k:]...)
		f := strings.Fields(out[0])
		if len(f) > 2 {
			out[0] = strings.Replace(out[0], " "+f[2]+" bp", " "+fmt.Sprint(keep)+" bp", 1)
		}
		return out
	case "set-length":
		out := append([]string(nil), lines...)
		f := strings.Fields(out[0])
		if len(f) > 2 {
			out[0] = strings.Replace(out[0], " "+f[2]+" bp", " "+fmt.Sprint(e.N)+" bp", 1)
		}
		return out
	case "del-origin-line", "dup-origin-line", "cut-origin-line":
		a, b := originRange(lines)
		if a < 0 || b <= a {
			return lines
		}
		k := a + e.Line%(b-a)
		switch e.Op {
		case "del-origin-line":
			return append(append([]string(nil), lines[:k]...), lines[k+1:]...)
		case "dup-origin-line":
			out := append([]string(nil), lines[:k+1]...)
			out = append(out, lines[k])
			return append(out, lines[k+1:]...)
		default:
			out := append([]string(nil), lines...)
			t := strings.TrimRight(out[k], "\r\n")
			cut := 10 + e.N%(len(t)-9+1)
			if cut > len(t) {
				cut = len(t)
			}
			out[k] = t[:cut] + "\n"
			return out
		}
	}
	return lines
}

// ---- generation ----

var streamCorpus = []string{"NC_001422_part.gb", "pBAT5.txt", "NC_000913.3.min.gb", "NC_001422_part.gb", "NC_001422.gb", "NC_001422_part.fasta", "NC_001422.fasta"}

func genParts(r *core.RNG) []streamPart {
	n := r.Pick([]int{0, 6, 2, 1, 1})
	var ps []streamPart
	fasta := r.Chance(1, 6)
	for i := 0; i < n; i++ {
		switch {
		case fasta && r.Chance(1, 2):
			f := fastaRec{Desc: genDesc(r), Len: r.Range(0, 300), Seed: r.U64()}
			ps = append(ps, streamPart{Fasta: &f})
		case fasta:
			ps = append(ps, streamPart{Corpus: []string{"NC_001422_part.fasta", "NC_001422.fasta"}[r.Intn(2)]})
		case r.Chance(1, 2):
			c := streamCorpus[r.Intn(5)]
			ps = append(ps, streamPart{Corpus: c})
		default:
			g := genRec(r, i)
			if len(g.Features) == 0 {
				g.Features = []featSpec{genFeature(r, 60)}
			}
			ps = append(ps, streamPart{Gen: &g})
		}
	}
	return ps
}

func genEdit(r *core.RNG, nlines, nbytes int) textEdit {
	ops := []string{"del-line", "dup-line", "swap-lines", "shrink-indent", "grow-indent", "drop-value", "long-name", "flip", "flip", "inflate-number", "replace-line", "bad-date", "continuation-ize", "continuation-ize"}
	e := textEdit{Op: ops[r.Intn(len(ops))], Line: r.Intn(nlines + 1)}
	if r.Chance(1, 2) && nlines > 30 {
		e.Line = r.Intn(30) // the header is where the structure is
	}
	switch e.Op {
	case "continuation-ize":
		// a header line pushed to the continuation column of the field before it
		e.Line = r.Range(1, 14)
		e.N = r.Range(12, 13)
	case "shrink-indent", "grow-indent":
		e.N = r.Range(1, 13)
	case "drop-value":
		e.N = r.Intn(3)
	case "long-name":
		e.Text = []string{"X", "LONGERNAME", "_ABCDEFGHIJKLMNOP"}[r.Intn(3)]
	case "flip":
		e.At = r.Intn(nbytes + 1)
		e.Mask = []int{1, 2, 4, 8, 16, 32, 64, 128, 0x20, 0xff}[r.Intn(10)]
	case "bad-date":
		e.Text = []string{"31-APR-2021", "29-FEB-2019", "00-JAN-2020", "32-DEC-1999", "31-JUN-2020", "30-FEB-2000", "1-1-1", "31-SEP-1985"}[r.Intn(8)]
	case "inflate-number":
		e.Text = []string{"0", "00", "000", "99999999999999999999"}[r.Intn(4)]
	case "replace-line":
		e.Text = []string{"DBLINK      X:", "DBLINK      :", "ORIGIN", "FEATURES", "//", "CONTIG      join(X:1..2", "REFERENCE   1000", "LOCUS", "            ", "     gene            ", "                     /", "                     /note=\"", "        1 acgt", ">fasta header", ">x\nACGT"}[r.Intn(15)]
	}
	return e
}

func genT4Edit(r *core.RNG, length int) textEdit {
	if r.Chance(1, 6) {
		return textEdit{Op: "empty-dblink", Line: r.Intn(8), N: r.Intn(3)}
	}
	if r.Chance(1, 7) {
		return textEdit{Op: "surplus-after-blank", Line: r.Intn(1000), N: r.Intn(3)}
	}
	switch r.Intn(5) {
	case 0:
		return textEdit{Op: "set-length", N: []int{0, 1, length - 1, length + 1, length / 2, length * 2, length + 60, length - 60, 10, 60}[r.Intn(10)]}
	case 1:
		if r.Chance(1, 4) {
			// numbers at the edge of what an int can hold
			if r.Chance(1, 3) {
				return textEdit{Op: "set-length", N: []int{-1, -2, -5, -9, -10, -60, -9223372036854775808}[r.Intn(7)]}
			}
			return textEdit{Op: "set-length", N: []int{9223372036854775807, 9223372036854775806, 4611686018427387904, 1 << 62, 1 << 32, 1<<31 - 1, 3074457345618258603, 999999999999999999}[r.Intn(8)]}
		}
		return textEdit{Op: "set-length", N: r.Range(0, length+200)}
	case 2:
		return textEdit{Op: "del-origin-line", Line: r.Intn(1000)}
	case 3:
		return textEdit{Op: "dup-origin-line", Line: r.Intn(1000)}
	}
	return textEdit{Op: "cut-origin-line", Line: r.Intn(1000), N: r.Intn(70)}
}

// ---- execution ----

type c07Run struct {
	res *core.Result
	vs  []core.Violation
	// cache of the fault-free scan of the current material
	base     *material
	baseOuts [][]byte
	baseOK   bool
}

func (x *c07Run) key(s string) {
	for _, k := range x.res.Keys {
		if k == s {
			return
		}
	}
	x.res.Keys = append(x.res.Keys, s)
}

func (x *c07Run) violate(sc *c07Scenario, class, sig, detail string) {
	b, _ := json.Marshal(sc)
	x.vs = append(x.vs, core.Violation{Class: class, Signature: sig, Detail: detail, Scenario: b})
}

// fieldAt names the top-level keyword in whose territory offset c lies, read
// off the intact text so that a cut inside the keyword itself still names it.
func fieldAt(data []byte, c int) string {
	if c > len(data) {
		c = len(data)
	}
	field := "start"
	pos := 0
	for _, l := range splitLines(data) {
		if pos > c || (pos == c && c > 0) {
			break
		}
		if len(l) > 0 && l[0] != ' ' && l[0] != '\r' && l[0] != '\n' {
			w := strings.Fields(l)
			if len(w) > 0 {
				field = w[0]
				if len(field) > 12 {
					field = field[:12]
				}
			}
		}
		pos += len(l)
	}
	if strings.HasPrefix(field, "//") {
		field = "after-//"
	}
	if len(field) > 0 && field[0] >= '0' && field[0] <= '9' {
		field = "ORIGIN"
	}
	return field
}

func rewritten(seqs []gts.Sequence) [][]byte {
	outs := make([][]byte, len(seqs))
	for i, s := range seqs {
		ft := seqio.FastaFile
		if _, ok := fieldsOf(s); ok {
			ft = seqio.GenBankFile
		}
		b, err, pnc := writeSeq(s, ft)
		if err != nil || pnc != "" {
			b = []byte("unwritable:" + fmt.Sprint(err) + firstLine(pnc))
		}
		outs[i] = b
	}
	return outs
}

func isSpace(b []byte) bool {
	for _, c := range b {
		if c != ' ' && c != '\n' && c != '\r' && c != '\t' {
			return false
		}
	}
	return true
}

// completeAt reports how many records lie wholly inside data[:c] and whether
// data[:c] ends at a record boundary.
func completeAt(m *material, c int) (int, bool) {
	j := 0
	for j+1 < len(m.bounds) && m.bounds[j+1] <= c {
		j++
	}
	tail := m.data[m.bounds[j]:c]
	if isSpace(tail) {
		return j, true
	}
	if j+1 < len(m.bounds) {
		// a cut between the end marker and its line terminator
		rest := m.data[c:m.bounds[j+1]]
		if isSpace(rest) && bytes.HasSuffix(bytes.TrimRight(m.data[:c], "\r"), []byte("//")) {
			return j + 1, true
		}
	}
	return j, false
}

// runStream executes one stream scenario and applies T1-T5.
func (x *c07Run) runStream(sc *c07Scenario, m *material) {
	res := x.res
	core.Current, core.CurrentSig = sc, "scan"
	core.Tick()
	processBoundary()
	r := scanAll(m.data, sc.Pipe, 0)
	res.Evaluations++
	res.SimOps += r.Reads
	cut := sc.Pipe.CutAt >= 0 && sc.Pipe.CutAt < len(m.data)
	c := len(m.data)
	fkind := "none"
	if cut {
		c = sc.Pipe.CutAt
		fkind = sc.Pipe.CutKind
		if fkind == "" {
			fkind = "eof"
		}
		res.Faults[fkind]++
		if sc.Pipe.WithData {
			res.Faults["data+error in one Read"]++
		}
	}
	for _, e := range sc.Edits {
		res.Faults["edit:"+e.Op]++
	}
	field := fieldAt(m.data, c)
	format := "fasta"
	if m.genbank {
		format = "genbank"
	}
	outcome := "error"
	if r.Panic != "" {
		outcome = "panic"
	} else if r.Err == nil && len(r.Seqs) == 0 {
		outcome = "clean-nothing"
	} else if r.Err == nil {
		outcome = "clean"
	}
	ek := "none"
	if len(sc.Edits) > 0 {
		ek = sc.Edits[len(sc.Edits)-1].Op
	}
	x.key(fmt.Sprintf("scan|%s|fault=%s|edit=%s|in=%s|chunks=%s|%s", format, fkind, ek, field, chunkClass(sc.Pipe.Chunks), outcome))
	// T1
	if r.Panic != "" {
		x.violate(sc, "panic", panicSite(r.Panic), fmt.Sprintf("scanner panicked (fault=%s at %d in %s, edits=%d): %s", fkind, c, field, len(sc.Edits), firstLine(r.Panic)))
		return
	}
	// T2 (the hang half is the watchdog's)
	if r.AfterErr > 0 {
		x.violate(sc, "read-after-error", format, fmt.Sprintf("the scanner issued %d Read calls after the reader had returned an error", r.AfterErr))
	}
	// T3: truncation of an unedited GenBank stream
	if cut && !m.edited && m.genbank && x.baseOK {
		outs := rewritten(r.Seqs)
		for i := range outs {
			if i >= len(x.baseOuts) {
				x.violate(sc, "shortened-record", "invented", fmt.Sprintf("cut at %d: the scan returned %d records, the intact stream has %d", c, len(outs), len(x.baseOuts)))
				break
			}
			if !bytes.Equal(outs[i], x.baseOuts[i]) {
				x.violate(sc, "shortened-record", field, fmt.Sprintf("cut at %d (in %s): record %d differs from the record of the intact stream (%d vs %d bytes re-written)", c, field, i, len(outs[i]), len(x.baseOuts[i])))
				break
			}
		}
		if r.Err == nil {
			want, atBoundary := completeAt(m, c)
			if len(r.Seqs) < want {
				x.violate(sc, "silent-loss", "complete-record", fmt.Sprintf("%s at %d: %d complete records precede the cut, the scan returned %d and no error", fkind, c, want, len(r.Seqs)))
			} else if !atBoundary {
				x.violate(sc, "silent-loss", field, fmt.Sprintf("%s at offset %d inside %s of record %d: the scan returned %d records and Err()==nil, the partial record vanished without an error", fkind, c, field, want, len(r.Seqs)))
			}
		}
		if cut {
			res.Probes["cut_in:"+field]++
		}
	}
	// a scanner that has stopped stays stopped, with the error it recorded
	if r.Panic == "" && r.Unsticky != "" {
		x.violate(sc, "end-of-scan-not-final", format, r.Unsticky)
	}
	// an error returned by the reader must not be turned into a clean end of input
	if cut && simpipe.IsErrorKind(fkind) && r.Reader.ErrorDelivered && r.Err == nil {
		x.violate(sc, "read-error-swallowed", format, fmt.Sprintf("the reader failed with an I/O error at offset %d (in %s); the scan returned %d records and Err()==nil", c, field, len(r.Seqs)))
	}
	// T6: the same stream scanned again in the same process (no process boundary) gives the same outcome
	if sc.Rescan {
		r2 := scanAll(m.data, sc.Pipe, 0)
		res.Evaluations++
		res.SimOps += r2.Reads
		res.Probes["rescan_in_same_process_cases"]++
		if r2.Panic != "" {
			x.violate(sc, "panic", panicSite(r2.Panic), "scanner panicked on the second scan of the same stream in one process: "+firstLine(r2.Panic))
		} else if (r2.Err == nil) != (r.Err == nil) || len(r2.Seqs) != len(r.Seqs) {
			x.violate(sc, "rescan-variance", "count", fmt.Sprintf("first scan: %d records err=%v; second scan of the same bytes in the same process: %d records err=%v", len(r.Seqs), r.Err, len(r2.Seqs), r2.Err))
		} else {
			a, b := rewritten(r.Seqs), rewritten(r2.Seqs)
			for i := range a {
				if !bytes.Equal(a[i], b[i]) {
					x.violate(sc, "rescan-variance", "content", fmt.Sprintf("record %d differs between the first and the second scan of the same bytes in one process", i))
					break
				}
			}
		}
	}
	// T4: length consistency
	if m.t4 && !cut {
		res.Probes["length_consistency_cases"]++
		if r.Err == nil && len(r.Seqs) > 0 {
			got := residuesHeld(r.Seqs[0])
			if m.declared != m.actual || got != m.declared {
				x.violate(sc, "length-mismatch-accepted", t4Sig(sc, m), fmt.Sprintf("LOCUS declares %d, the ORIGIN block holds %d residues, the record was accepted with %d residues and no error", m.declared, m.actual, got))
			}
		} else if r.Err == nil && len(r.Seqs) == 0 {
			x.violate(sc, "silent-loss", "inconsistent-record", fmt.Sprintf("LOCUS declares %d, ORIGIN holds %d: no record and no error", m.declared, m.actual))
		}
	}
	// the statement names it: an empty DBLINK value is reported as an error
	if m.emptyDBLink != "" && !cut {
		res.Probes["empty_dblink_value_cases"]++
		if r.Err == nil {
			x.violate(sc, "empty-dblink-accepted", m.emptyDBLink, fmt.Sprintf("a DBLINK entry without a value (%s) was accepted: %d record(s), no error", m.emptyDBLink, len(r.Seqs)))
		}
	}
	// T4 for every accepted GenBank record, whatever was done to the stream:
	// the length a record is returned with is the one its own LOCUS line
	// declares (a record with a CONTIG and no residues excepted). The LOCUS
	// lines are matched to the records by position, and only when there are
	// as many of the one as of the other.
	if !cut && r.Err == nil && len(r.Seqs) > 0 && format == "genbank" {
		var declared []int
		for _, l := range splitLines(m.data) {
			if !strings.HasPrefix(l, "LOCUS ") {
				continue
			}
			f := strings.Fields(l)
			if len(f) < 2 {
				// the word alone starts no record: a line like any other
				// that no field parser takes
				continue
			}
			d := -1
			for i := 2; i < len(f); i++ {
				if f[i] == "bp" || f[i] == "aa" {
					if v, err := strconv.Atoi(f[i-1]); err == nil {
						d = v
					}
					break
				}
			}
			declared = append(declared, d)
		}
		// a stream that starts as GenBank is GenBank to its end: what comes
		// back is GenBank records, and one per LOCUS line
		if bytes.HasPrefix(bytes.TrimLeft(m.data, " \t\r\n"), []byte("LOCUS ")) {
			for k, seq := range r.Seqs {
				if _, ok := fieldsOf(seq); !ok {
					x.violate(sc, "format-switch", "genbank->other", fmt.Sprintf("the stream starts with a LOCUS line; record %d of the %d returned is not a GenBank record (%T) and no error was reported", k, len(r.Seqs), seq.Info()))
					break
				}
			}
			if len(declared) != len(r.Seqs) {
				x.violate(sc, "record-count-mismatch", fmt.Sprintf("locus-lines%srecords", map[bool]string{true: ">", false: "<"}[len(declared) > len(r.Seqs)]), fmt.Sprintf("the stream holds %d LOCUS lines; it was accepted without an error as %d record(s)", len(declared), len(r.Seqs)))
			}
		}
		if len(declared) == len(r.Seqs) {
			res.Probes["declared_length_checked_on_accepted_records"]++
			for k, seq := range r.Seqs {
				got := residuesHeld(seq)
				f, ok := fieldsOf(seq)
				if !ok || declared[k] < 0 || got == declared[k] || (got == 0 && f.Contig.Accession != "") {
					continue
				}
				kind := "declared>returned"
				if got > declared[k] {
					kind = "declared<returned"
				}
				if got == 0 {
					kind = "returned-empty"
				}
				x.violate(sc, "length-mismatch-accepted", "any-edit:"+kind, fmt.Sprintf("record %d: its LOCUS line declares %d, it was accepted without an error with %d residues", k, declared[k], got))
				break
			}
		}
	}
	// T5: chunk invariance
	if sc.CheckAlt {
		alt := sc.Pipe
		alt.Chunks = sc.AltChunks
		processBoundary()
		r2 := scanAll(m.data, alt, 0)
		res.Evaluations++
		res.SimOps += r2.Reads
		if r2.Panic != "" {
			x.violate(sc, "panic", panicSite(r2.Panic), "scanner panicked under the second chunk schedule: "+firstLine(r2.Panic))
			return
		}
		if (r2.Err == nil) != (r.Err == nil) || len(r2.Seqs) != len(r.Seqs) {
			x.violate(sc, "chunk-variance", "count", fmt.Sprintf("chunks %v: %d records err=%v; chunks %v: %d records err=%v", sc.Pipe.Chunks, len(r.Seqs), r.Err, sc.AltChunks, len(r2.Seqs), r2.Err))
		} else {
			a, b := rewritten(r.Seqs), rewritten(r2.Seqs)
			for i := range a {
				if !bytes.Equal(a[i], b[i]) {
					if os.Getenv("VERIF_DEBUG") != "" {
						fmt.Fprintf(os.Stderr, "---- input ----\n%s---- record %d under %v ----\n%s---- under %v ----\n%s----\n", m.data, i, sc.Pipe.Chunks, a[i], sc.AltChunks, b[i])
					}
					x.violate(sc, "chunk-variance", "content", fmt.Sprintf("record %d differs between chunk schedules %v and %v", i, sc.Pipe.Chunks, sc.AltChunks))
					break
				}
			}
		}
		res.Probes["chunk_invariance_cases"]++
	}
}

func t4Sig(sc *c07Scenario, m *material) string {
	op := "?"
	if len(sc.Edits) > 0 {
		op = sc.Edits[0].Op
	}
	rel := "declared<actual"
	switch {
	case m.declared > m.actual:
		rel = "declared>actual"
	case m.declared == m.actual:
		rel = "declared=actual"
	}
	if m.declared == 0 {
		rel = "declared=0"
	}
	return op + ":" + rel
}

// setBase scans the unfaulted stream once.
func (x *c07Run) setBase(m *material) {
	processBoundary()
	r := scanAll(m.data, simpipe.Spec{CutAt: -1}, 0)
	x.res.SimOps += r.Reads
	x.base = m
	x.baseOK = r.Panic == "" && r.Err == nil && len(r.Seqs) == len(m.bounds)-1
	x.baseOuts = nil
	if x.baseOK {
		x.baseOuts = rewritten(r.Seqs)
	}
}

// ---- strings ----

var stringSeeds = map[string][]string{
	"AsLocation": {"1..10", "complement(join(1..5,7..9))", "<1..>5", "1.5", "3^4", "order(1,3..4,complement(8..9))", "join(complement(1..2),4)", "42", "complement(order(1..2,5..6))"},
	"AsLocator":  {"^..$", "CDS/gene=A@^-10..$", "1..10", "3", "@^..$", "gene@^..^+30", "$-20..$", "source", "10..1@^+1..$-1", "CDS/product=prot.*/gene", "3'UTR", "5'UTR@^..^+3", "-35_signal", "complement(2..9)", "D-loop", "misc_feature/note=1..2"},
	"AsModifier": {"^..$", "^-10..^+5", "$-3..$", "^+1..$-1", "^", "$", "^-5", "$+5", "^..^", "$..$"},
	"Selector":   {"CDS", "CDS/gene=A/product", "/note=x.*", "gene/locus_tag", "/", "source/organism=Esch.*", "source/mol_type=\\/", "CDS/note=a\\/b/gene", "/note=[", "CDS/gene=(", "a/b=c/d=e/f"},
	"AsDate":     {"11-OCT-2018", "29-FEB-2000", "01-Jan-1999", "31-12-2020", "31-APR-2021", "29-FEB-2019", "00-JAN-2020", "32-DEC-1999", "31-JUN-2020"},
	"AsMolecule": {"DNA", "RNA", "AA", "ss-DNA", "ds-DNA"},
	"AsTopology": {"linear", "circular"},
	"FeatureTable": {"     gene            1..10\n                     /gene=\"x\"\n     CDS             complement(join(2..5,8..10))\n                     /codon_start=1\n                     /pseudo\n                     /note=\"two\n                     lines\"\n",
		"     source          1..5386\n                     /organism=\"Escherichia virus phiX174\"\n                     /mol_type=\"genomic DNA\"\n"},
}

var stringFuncs = []string{"AsLocation", "AsLocator", "AsModifier", "Selector", "AsDate", "AsMolecule", "AsTopology", "FeatureTable"}

func callString(fn, in string) (pnc string, accepted bool) {
	defer func() {
		if x := recover(); x != nil {
			pnc = fmt.Sprintf("%v\n%s", x, debug.Stack())
		}
	}()
	var err error
	switch fn {
	case "AsLocation":
		var loc gts.Location
		loc, err = gts.AsLocation(in)
		if err == nil && loc != nil {
			if why := locationAcceptedWrongly(in, loc.String()); why != "" {
				return "ACCEPTED-MALFORMED: " + why, true
			}
		}
	case "AsLocator":
		var loc gts.Locator
		if loc, err = gts.AsLocator(in); err == nil && loc != nil {
			// a locator is only useful applied to a sequence
			loc(gts.New(nil, gts.FeatureSlice{gts.NewFeature("CDS", gts.Range(2, 20), gts.Props{[]string{"gene", "A"}})}, []byte(strings.Repeat("acgt", 10))))
			// A locator is a modifier, a location or a selector, with or
			// without "@modifier" behind it. What is neither a modifier nor a
			// location can only be a selector, and a selector finds nothing
			// on a sequence that has no features.
			base := in
			if i := strings.IndexByte(in, '@'); i >= 0 {
				base = in[:i]
			}
			if _, merr := gts.AsModifier(base); base != "" && merr != nil && !refLocation(base) {
				if rr := loc(gts.New(nil, nil, []byte(strings.Repeat("acgt", 10)))); len(rr) != 0 {
					return fmt.Sprintf("ACCEPTED-MALFORMED: %q is neither a modifier nor a location, so it can only select features - yet on a sequence without any feature it locates %d region(s): something was read off its front and the rest ignored", base, len(rr)), true
				}
			}
		}
	case "AsModifier":
		var mod gts.Modifier
		if mod, err = gts.AsModifier(in); err == nil && mod != nil {
			gts.Segment{5, 15}.Resize(mod)
		}
	case "Selector":
		var f gts.Filter
		if f, err = gts.Selector(in); err == nil && f != nil {
			f(gts.NewFeature("CDS", gts.Range(2, 20), gts.Props{[]string{"gene", "A"}}))
		}
	case "AsDate":
		_, err = seqio.AsDate(in)
	case "AsMolecule":
		_, err = gts.AsMolecule(in)
	case "AsTopology":
		_, err = gts.AsTopology(in)
	case "FeatureTable":
		_, err = seqio.INSDCTableParser("").Parse(pars.FromString(in))
	}
	return "", err == nil
}

// locationAcceptedWrongly names a reason why a string that AsLocation
// accepted cannot be a location, or returns "". These are necessary
// conditions only: the parentheses balance, the only words are the three
// operators, and the largest number written in the string is still in what
// the value prints as (merging drops inner bounds, never the outermost).
// refLocation is a small reference recogniser of location strings: the
// syntax only, and generously (signs, a partial marker on either side, any
// two numbers around ^): what it refuses no reading of the grammar accepts.
func refLocation(in string) bool {
	i := 0
	integer := func() bool {
		j := i
		if j < len(in) && (in[j] == '+' || in[j] == '-') {
			j++
		}
		k := j
		for k < len(in) && in[k] >= '0' && in[k] <= '9' {
			k++
		}
		if k == j {
			return false
		}
		i = k
		return true
	}
	var loc func(depth int) bool
	loc = func(depth int) bool {
		if depth > 100000 {
			return true
		}
		for _, op := range []string{"complement(", "join(", "order("} {
			if strings.HasPrefix(in[i:], op) {
				i += len(op)
				for {
					if !loc(depth + 1) {
						return false
					}
					if op != "complement(" && i < len(in) && in[i] == ',' {
						i++
						for i < len(in) && (in[i] == ' ' || in[i] == '\t' || in[i] == '\n' || in[i] == '\r' || in[i] == '\v' || in[i] == '\f') {
							i++
						}
						continue
					}
					break
				}
				if i < len(in) && in[i] == ')' {
					i++
					return true
				}
				return false
			}
		}
		if i < len(in) && (in[i] == '<' || in[i] == '>') {
			i++
		}
		if !integer() {
			return false
		}
		switch {
		case strings.HasPrefix(in[i:], ".."):
			i += 2
		case i < len(in) && (in[i] == '.' || in[i] == '^'):
			i++
		default:
			return true
		}
		if i < len(in) && (in[i] == '<' || in[i] == '>') {
			i++
		}
		if !integer() {
			return false
		}
		if i < len(in) && in[i] == '>' {
			i++
		}
		return true
	}
	return loc(0) && i == len(in)
}

// residuesHeld is the number of residues a record delivers: the length of
// what Bytes() returns, not what Len() says (the two are computed apart in
// gts; when they disagree the larger difference from the declared length is
// what a caller would meet, and Len() alone could mirror the declared length).
func residuesHeld(seq gts.Sequence) int {
	n := len(seq.Bytes())
	if l := gts.Len(seq); l != n {
		return -1 - n // never equal to a declared length
	}
	return n
}

func locationAcceptedWrongly(in, out string) string {
	if !refLocation(in) {
		return "no reading of the location grammar derives it (it was read as " + out + ")"
	}
	return ""
}

func mutateString(r *core.RNG, s string) string {
	b := []byte(s)
	for k := r.Range(1, 3); k > 0; k-- {
		if len(b) == 0 {
			b = append(b, byte(r.Range(32, 126)))
			continue
		}
		switch r.Intn(7) {
		case 0:
			b = b[:r.Intn(len(b))]
		case 1:
			i := r.Intn(len(b))
			b[i] ^= byte([]int{1, 2, 4, 8, 16, 32, 64, 128}[r.Intn(8)])
		case 2:
			i := r.Intn(len(b) + 1)
			ins := []string{"(", ")", "..", "^", "$", "@", "/", "=", ",", "-", "+", "<", ">", ".", "9999999999999999999999", "complement(", "join(", "\n", " ", "\"", "[", "*", "\\", "\\/", "\\\\", "|", ":", "\t", "\x00", "%", "order(", "))", "((", "^^", "$$", "..", "@@", "//"}[r.Intn(38)]
			b = append(append(append([]byte(nil), b[:i]...), ins...), b[i:]...)
		case 3:
			i := r.Intn(len(b))
			b = append(b[:i], b[i+1:]...)
		case 4:
			i := r.Intn(len(b))
			j := i + r.Intn(len(b)-i)
			b = append(append(append([]byte(nil), b[:j]...), b[i:j]...), b[j:]...)
		case 5:
			b = b[r.Intn(len(b)):]
		case 6:
			i := r.Intn(len(b))
			b[i] = byte(r.Intn(256))
		}
	}
	return string(b)
}

// smallLocation is a well-formed location over very few coordinates, so that
// parts touch, overlap, coincide and run backwards far more often than in
// the locations of real records.
func smallLocation(r *core.RNG, depth int) string {
	num := func() string { return strconv.Itoa(r.Range(0, 12)) }
	if depth < 3 && r.Chance(2, 5) {
		switch r.Intn(3) {
		case 0:
			return "complement(" + smallLocation(r, depth+1) + ")"
		default:
			op := []string{"join(", "order("}[r.Intn(2)]
			n := r.Range(1, 4)
			parts := make([]string, n)
			for i := range parts {
				parts[i] = smallLocation(r, depth+1)
			}
			// a part that starts where the one before it ends
			if n > 1 && r.Chance(1, 2) {
				i := 1 + r.Intn(n-1)
				if j := strings.LastIndexAny(parts[i-1], "0123456789"); j >= 0 {
					k := j
					for k > 0 && parts[i-1][k-1] >= '0' && parts[i-1][k-1] <= '9' {
						k--
					}
					v, _ := strconv.Atoi(parts[i-1][k : j+1])
					parts[i] = strconv.Itoa(v+1) + ".." + num()
				}
			}
			return op + strings.Join(parts, ",") + ")"
		}
	}
	switch r.Intn(6) {
	case 0:
		return num()
	case 1:
		return num() + "^" + num()
	case 2:
		return num() + "." + num()
	case 3:
		return "<" + num() + ".." + num()
	case 4:
		return num() + "..>" + num()
	}
	return num() + ".." + num()
}

// edgeDate is a date put together from parts at and beyond the ends of
// their ranges, months as names in any case and as numbers.
func edgeDate(r *core.RNG) string {
	days := []string{"0", "00", "1", "01", "28", "29", "30", "31", "32", "99", "-1", "+1", ""}
	months := []string{"JAN", "FEB", "feb", "Feb", "APR", "JUN", "SEP", "NOV", "DEC", "dec", "XXX", "00", "0", "01", "1", "02", "2", "12", "13", "99", "+1", "-1", "", "JANUARY"}
	years := []string{"0", "0000", "1", "1900", "2000", "2019", "2020", "2100", "9999", "10000", "-1", "+2020", "99999999999999999999", ""}
	sep := []string{"-", "-", "-", "/", " ", ""}[r.Intn(6)]
	return days[r.Intn(len(days))] + sep + months[r.Intn(len(months))] + sep + years[r.Intn(len(years))]
}

// fragmentNoise strings are made of pieces of valid locations put together
// in no order: what one alternative of a parser consumed before it gave up
// must not be lost to the next.
func fragmentNoise(r *core.RNG) string {
	frags := []string{"1^3", "3^4", "1^", "1..", "..5", "1..5", "2..>9", "<1", "<1..", ">5", "complement(", "join(", "order(", ")", ")", ",", ", ",
		"7", "12", "1.5", "1.", "^", "+5", "-5", " ", "9^11", "4^5", "10..1"}
	n := r.Range(2, 6)
	var b strings.Builder
	open := 0
	for k := 0; k < n; k++ {
		f := frags[r.Intn(len(frags))]
		b.WriteString(f)
		if strings.HasSuffix(f, "(") {
			open++
		}
	}
	// mostly with the parentheses closed, so that the string gets far
	for ; open > 0 && r.Chance(3, 4); open-- {
		b.WriteString(")")
	}
	return b.String()
}

// grammarNoise is a short string over the characters that mean something to
// the interpreters: shapes (an escape at the very start of a segment, an
// operator with nothing on one side) that a mutation of a valid string seldom
// reaches.
func grammarNoise(r *core.RNG) string {
	const alphabet = "\\\\\\//==@@^^$$..,,()<>-+*[ a1"
	n := r.Range(1, 10)
	b := make([]byte, n)
	for i := range b {
		b[i] = alphabet[r.Intn(len(alphabet))]
	}
	return string(b)
}

// ---- scaling (T7) ----

var scalingShapes = []string{"comment-lines", "definition-lines", "features", "qualifiers", "qualifier-lines", "origin", "records", "fasta-lines", "fasta-records", "dblink", "references", "keywords", "extra-fields", "unknown-lines", "location-parts", "literal-lines", "origin-crlf", "fasta-long-line", "taxonomy-lines", "contig-parts", "contig-no-colon-lines", "distinct-qualifier-names", "locus-blank-run", "locus-blank-run-words"}

// scaledStream builds a well-formed stream in which one part has n units.
func scaledStream(shape string, n int) []byte {
	if shape == "origin-crlf" {
		// CRLF line ends send the ORIGIN block through the line-wise parser
		return bytes.ReplaceAll(scaledStream("origin", n), []byte("\n"), []byte("\r\n"))
	}
	var b bytes.Buffer
	origin := func(k int) string {
		var o bytes.Buffer
		seq := bytes.Repeat([]byte("acgtacgtac"), k/10+1)[:k]
		o.WriteString("ORIGIN      \n")
		o.Write(seqio.NewOrigin(seq).Buffer)
		return o.String()
	}
	head := func(length int) {
		if shape == "locus-blank-run" || shape == "locus-blank-run-words" {
			// the run of blanks behind LOCUS sets the indent of every field;
			// the short lines that follow are skipped one by one
			fmt.Fprintf(&b, "LOCUS%s%-17s %10d bp    DNA     linear   SYN 01-JAN-2000\n", strings.Repeat(" ", 7+20*n), "SCALE", length)
			for i := 0; i < 10*n; i++ {
				if shape == "locus-blank-run-words" {
					// a capital word at the start of a line is a field name
					// to be checked against that indent
					b.WriteString("ABCDEFGH\n")
				} else {
					b.WriteString("x\n")
				}
			}
			return
		}
		fmt.Fprintf(&b, "LOCUS       %-17s %10d bp    DNA     linear   SYN 01-JAN-2000\n", "SCALE", length)
	}
	switch shape {
	case "fasta-lines":
		b.WriteString(">scaled\n")
		for i := 0; i < n; i++ {
			b.WriteString("ACGTACGTACGTACGTACGTACGTACGTACGTACGTACGTACGTACGTACGTACGTACGTACGTACGTAC\n")
		}
		return b.Bytes()
	case "fasta-long-line":
		b.WriteString(">scaled\n")
		for i := 0; i < n; i++ {
			b.WriteString("ACGTACGTACGTACGTACGTACGTACGTACGTACGTACGTACGTACGTACGTACGTACGTACGTACGTAC")
		}
		b.WriteString("\n")
		return b.Bytes()
	case "fasta-records":
		for i := 0; i < n; i++ {
			fmt.Fprintf(&b, ">r%d\nACGTACGTACGTACGT\n", i)
		}
		return b.Bytes()
	case "records":
		for i := 0; i < n; i++ {
			head(20)
			b.WriteString("DEFINITION  x.\nFEATURES             Location/Qualifiers\n     gene            1..10\n")
			b.WriteString(origin(20))
			b.WriteString("//\n")
		}
		return b.Bytes()
	}
	length := 60
	if shape == "origin" {
		length = 60 * n
	}
	head(length)
	switch shape {
	case "definition-lines":
		b.WriteString("DEFINITION  first line")
		for i := 0; i < n; i++ {
			b.WriteString("\n            continuation line of the definition")
		}
		b.WriteString(".\n")
	default:
		b.WriteString("DEFINITION  x.\n")
	}
	switch shape {
	case "dblink":
		b.WriteString("DBLINK      BioProject: PRJ0\n")
		for i := 1; i < n; i++ {
			fmt.Fprintf(&b, "            Db%d: ID%d\n", i, i)
		}
	case "keywords":
		b.WriteString("KEYWORDS    k0")
		for i := 1; i < n; i++ {
			fmt.Fprintf(&b, ";\n            keyword number %d", i)
		}
		b.WriteString(".\n")
	case "references":
		for i := 0; i < n; i++ {
			fmt.Fprintf(&b, "REFERENCE   %d  (bases 1 to 60)\n  AUTHORS   A,B.\n  TITLE     t\n", i%900+1)
		}
	case "comment-lines":
		b.WriteString("COMMENT     first line")
		for i := 0; i < n; i++ {
			b.WriteString("\n            another line of the comment")
		}
		b.WriteString("\n")
	case "extra-fields":
		for i := 0; i < n; i++ {
			b.WriteString("PROJECT     value\n")
		}
	case "contig-no-colon-lines":
		// lines that look like the start of a CONTIG field and are none
		for i := 0; i < n; i++ {
			b.WriteString("CONTIG      join(\n")
		}
	case "taxonomy-lines":
		b.WriteString("SOURCE      scaled organism\n  ORGANISM  scaled organism\n")
		for i := 0; i < n; i++ {
			fmt.Fprintf(&b, "            Taxon%d; Other%d;\n", i, i)
		}
		b.WriteString("            Last.\n")
	case "unknown-lines":
		for i := 0; i < n; i++ {
			b.WriteString("   this line is not a field and is skipped\n")
		}
	}
	b.WriteString("FEATURES             Location/Qualifiers\n")
	switch shape {
	case "features":
		for i := 0; i < n; i++ {
			fmt.Fprintf(&b, "     gene            %d..%d\n                     /gene=\"g%d\"\n", i%50+1, i%50+5, i)
		}
	case "distinct-qualifier-names":
		b.WriteString("     gene            1..10\n")
		for i := 0; i < n; i++ {
			fmt.Fprintf(&b, "                     /scaled_name_%d=\"v\"\n", i)
		}
	case "qualifiers":
		b.WriteString("     gene            1..10\n")
		for i := 0; i < n; i++ {
			fmt.Fprintf(&b, "                     /note=\"value %d\"\n", i)
		}
	case "location-parts":
		b.WriteString("     gene            join(1..2")
		for i := 1; i < n; i++ {
			if i%3 == 0 {
				b.WriteString(",\n                     ")
			} else {
				b.WriteString(",")
			}
			fmt.Fprintf(&b, "%d..%d", i*3+1, i*3+2)
		}
		b.WriteString(")\n")
	case "literal-lines":
		b.WriteString("     gene            1..10\n                     /transl_except=(pos:1..3,")
		for i := 0; i < n; i++ {
			b.WriteString("\n                     aa:Met more literal text")
		}
		b.WriteString(")\n")
	case "qualifier-lines":
		b.WriteString("     gene            1..10\n                     /note=\"first")
		for i := 0; i < n; i++ {
			b.WriteString("\n                     more text of the note")
		}
		b.WriteString("\"\n")
	default:
		b.WriteString("     gene            1..10\n")
	}
	if shape == "contig-parts" {
		b.WriteString("CONTIG      join(AB000001.1:1..10")
		for i := 1; i < n; i++ {
			fmt.Fprintf(&b, ",\n            AB%06d.1:1..10", i)
		}
		b.WriteString(")\n")
	}
	b.WriteString(origin(length))
	b.WriteString("//\n")
	return b.Bytes()
}

func allocatedBy(f func()) uint64 {
	var a, b runtime.MemStats
	runtime.ReadMemStats(&a)
	f()
	runtime.ReadMemStats(&b)
	return b.TotalAlloc - a.TotalAlloc
}

// runScaling applies T7: the memory the scanner allocates grows linearly with
// the stream. Allocation is the deterministic stand-in for work; a quadratic
// accumulation (string concatenation in a loop, re-copying a growing buffer)
// quadruples-squared when the input quadruples.
func (x *c07Run) runScaling(sc *c07Scenario) {
	core.Current, core.CurrentSig = sc, "scaling"
	core.Tick()
	if _, ok := stringShapes[sc.Shape]; ok {
		x.res.Probes["scaling_cases"]++
		x.key("scaling|" + sc.Shape)
		x.runTimeScaling(sc)
		return
	}
	small, large := scaledStream(sc.Shape, sc.N), scaledStream(sc.Shape, 4*sc.N)
	var r1, r2 scanResult
	processBoundary()
	scanAll(small, simpipe.Spec{CutAt: -1}, 0) // warm-up: lazily built parser tables are not the stream's cost
	a1 := allocatedBy(func() { r1 = scanAll(small, simpipe.Spec{CutAt: -1}, 0) })
	core.Tick()
	a2 := allocatedBy(func() { r2 = scanAll(large, simpipe.Spec{CutAt: -1}, 0) })
	x.res.Evaluations += 2
	x.res.SimOps += r1.Reads + r2.Reads
	x.res.Probes["scaling_cases"]++
	if r1.Panic != "" || r2.Panic != "" {
		x.violate(sc, "panic", panicSite(r1.Panic+r2.Panic), "scanner panicked on a scaled stream: "+firstLine(r1.Panic+r2.Panic))
		return
	}
	if hostileShapes[sc.Shape] {
		// a shape that is rejected by design: what it costs to reject it is the point
	} else if r1.Err != nil || r2.Err != nil || len(r1.Seqs) == 0 {
		x.res.Harness = fmt.Sprintf("c07 scaling: the %s stream is not well-formed: %v / %v", sc.Shape, r1.Err, r2.Err)
		return
	}
	ratio := float64(a2) / float64(a1+1)
	x.key("scaling|" + sc.Shape)
	// input x4: linear work gives about x4 (less with fixed overhead); x16 is quadratic
	if ratio > 9 && a2 > 1<<20 {
		x.violate(sc, "superlinear-allocation", sc.Shape, fmt.Sprintf("%s: %d units (%d bytes) allocate %d bytes, %d units (%d bytes) allocate %d bytes: x%.1f for x%.1f input", sc.Shape, sc.N, len(small), a1, 4*sc.N, len(large), a2, ratio, float64(len(large))/float64(len(small))))
		return
	}
	x.runTimeScaling(sc)
}

// threadCPU is the processor time this OS thread has consumed
// (CLOCK_THREAD_CPUTIME_ID): unlike the wall clock it does not advance while
// the thread waits for a processor, so an overloaded machine does not stretch it.
func threadCPU() time.Duration {
	var ts syscall.Timespec
	syscall.Syscall(syscall.SYS_CLOCK_GETTIME, 3, uintptr(unsafe.Pointer(&ts)), 0)
	return time.Duration(ts.Nano())
}

// minWorkTime is the least processor time of reps executions of work, measured on
// a goroutine locked to its thread: the minimum discards what cache and
// memory contention add to a measurement.
func minWorkTime(work func(), reps int) time.Duration {
	runtime.LockOSThread()
	defer runtime.UnlockOSThread()
	best := time.Duration(1 << 62)
	for i := 0; i < reps; i++ {
		core.Tick()
		t0 := threadCPU()
		work()
		if d := threadCPU() - t0; d < best {
			best = d
		}
	}
	return best
}

// runTimeScaling applies T8, the part of "time proportional to the input"
// that allocation cannot see: work that re-reads or re-copies inside one
// buffer. The stream is scanned at 4N and at 16N units; quadratic work makes
// the larger scan about 16 times slower, linear work about 4 times. This is
// the one oracle that reads a real clock - the processor time of its own
// thread, which an overloaded machine does not stretch (wall-clock time was
// tried first and raised a false alarm with three checks running at once).
// It is made safe against the remaining noise by taking the minimum of several
// scans, by demanding both a ratio far from the linear one and an absolute
// time far above what a linear scan of that size takes, and by measuring
// again before reporting; times never enter the event log, the state keys or
// the digests.
func (x *c07Run) runTimeScaling(sc *c07Scenario) {
	var small, large []byte
	work := func(data []byte) { scanAll(data, simpipe.Spec{CutAt: -1}, 0) }
	if fn, ok := stringShapes[sc.Shape]; ok {
		// a string interpreter instead of the scanner; the strings are kept
		// shorter because what they are checked for may well be cubic
		small, large = []byte(scaledString(sc.Shape, sc.N/2)), []byte(scaledString(sc.Shape, 2*sc.N))
		work = func(data []byte) { callString(fn, string(data)) }
	} else {
		small, large = scaledStream(sc.Shape, 4*sc.N), scaledStream(sc.Shape, 16*sc.N)
	}
	processBoundary()
	x.res.Probes["time_scaling_cases"]++
	x.res.Evaluations += 2
	verdict := func(reps int) (bool, time.Duration, time.Duration) {
		t1 := minWorkTime(func() { work(small) }, reps)
		t2 := minWorkTime(func() { work(large) }, 1)
		if t2 < 2*time.Second && reps > 1 {
			// cheap enough to repeat; an expensive measurement is already far
			// from anything noise can produce
			if t := minWorkTime(func() { work(large) }, reps-1); t < t2 {
				t2 = t
			}
		}
		return t2 > 10*t1 && t2 > 60*time.Millisecond, t1, t2
	}
	bad, t1, t2 := verdict(3)
	if !bad {
		return
	}
	if bad, t1, t2 = verdict(5); !bad {
		return
	}
	x.violate(sc, "superlinear-time", sc.Shape, fmt.Sprintf("%s: %d bytes take %v, %d bytes take %v (processor time of the working thread, minimum of repeated executions, measured twice): x%.1f for x%.1f input", sc.Shape, len(small), t1, len(large), t2, float64(t2)/float64(t1+1), float64(len(large))/float64(len(small))))
}

// stringShapes are the scaling shapes that exercise a string interpreter
// (value: the interpreter) instead of the stream scanner.
var stringShapes = map[string]string{
	"str-join-flat": "AsLocation", "str-join-nested": "AsLocation", "str-complement-nested": "AsLocation", "str-order-flat": "AsLocation",
	"str-selector-slashes": "Selector", "str-selector-segments": "Selector", "str-locator-segments": "AsLocator", "str-open-parens": "AsLocation", "str-join-complements": "AsLocation",
}

// hostileShapes are scaled streams that the scanner rejects.
var hostileShapes = map[string]bool{"locus-blank-run": true, "locus-blank-run-words": true}

var stringShapeNames = []string{"str-join-flat", "str-join-nested", "str-complement-nested", "str-order-flat", "str-selector-slashes", "str-selector-segments", "str-locator-segments", "str-open-parens", "str-join-complements"}

// scaledString builds an interpreter string with n units of one shape.
func scaledString(shape string, n int) string {
	var b strings.Builder
	switch shape {
	case "str-join-flat", "str-order-flat":
		b.WriteString(map[string]string{"str-join-flat": "join(", "str-order-flat": "order("}[shape])
		for i := 0; i < n; i++ {
			if i > 0 {
				b.WriteByte(',')
			}
			fmt.Fprintf(&b, "%d..%d", 3*i+1, 3*i+2)
		}
		b.WriteByte(')')
	case "str-join-complements":
		b.WriteString("join(")
		for i := 0; i < n; i++ {
			if i > 0 {
				b.WriteByte(',')
			}
			fmt.Fprintf(&b, "complement(%d..%d)", 3*i+1, 3*i+2)
		}
		b.WriteByte(')')
	case "str-join-nested":
		b.WriteString(strings.Repeat("join(", n))
		b.WriteString("1..2")
		for i := 0; i < n; i++ {
			fmt.Fprintf(&b, ",%d..%d)", 3*i+4, 3*i+5)
		}
	case "str-complement-nested":
		b.WriteString(strings.Repeat("complement(", n))
		b.WriteString("1..2")
		b.WriteString(strings.Repeat(")", n))
	case "str-open-parens":
		b.WriteString(strings.Repeat("join(", n))
	case "str-selector-slashes":
		b.WriteString(strings.Repeat("/", n))
	case "str-selector-segments", "str-locator-segments":
		b.WriteString("CDS")
		for i := 0; i < n; i++ {
			fmt.Fprintf(&b, "/q%d=v%d", i, i)
		}
		if shape == "str-locator-segments" {
			b.WriteString("@^..$")
		}
	}
	return b.String()
}

// ---- engine ----

type C07 struct{}

func (C07) Meta() core.Meta {
	return core.Meta{
		Property:   "C07",
		Level:      "exploration",
		NonVacuous: []string{"chunk_invariance_cases", "length_consistency_cases", "rescan_in_same_process_cases", "scaling_cases", "time_scaling_cases"},
		Rule: "Each simulated run draws a stream from its seed (corpus GenBank/FASTA files, generated GenBank records, generated FASTA records, 1-4 records, LF or CRLF) and " +
			"feeds it to the real auto-detecting scanner through a simulated pipe. Mode A sweeps the reader fault over the stream: EOF or EIO at offset c (every offset of " +
			"small streams, otherwise boundaries + header + seeded offsets), optionally delivered together with the last data, under a seeded chunk schedule. Mode B applies " +
			"1-3 structure-aware edits (delete/duplicate/swap lines, shrink/grow indent, drop a value, lengthen a field name, flip a byte, inflate a reference number, replace a " +
			"line by a known-tricky one) optionally followed by a cut. Mode C changes only the declared LOCUS length or the ORIGIN block (delete/duplicate/shorten a line). Mode D " +
			"feeds truncations and byte mutations of valid location/locator/modifier/selector/date/molecule/topology/feature-table strings to the interpreters, each twice. Mode E scales one " +
			"part of a well-formed stream by 4 and compares allocated bytes (T7). Oracles: T1 no " +
			"panic; T2 watchdog + no Read after an error; T3 (unedited GenBank streams) every record returned equals the intact stream's record and Err()==nil implies all complete " +
			"records were returned and the cut sits on a record boundary, and a delivered reader error never ends in Err()==nil; T4 (mode C) accepted implies declared == actual == " +
			"returned length; T5 outcome independent of the chunk schedule; T6 the same stream scanned twice in one process gives the same outcome; T7 input x4 allocates at most x9; T8 input x4 takes at most x10 the time (minimum of repeated scans, measured twice, and only when the larger scan takes more than 60 ms). A case is one faulted scan or string call; it is non-trivial when its state key is new.",
		StateRule:       "distinct (format, fault kind, last edit kind, top-level field in which the fault landed, chunk class, outcome {panic, error, clean, clean-nothing}) and (string function, outcome)",
		Assumptions:     []string{"(0,nil) reads are not injected: pars (a dependency) spins on them", "time proportional to the input is decided only as 'no hang within the watchdog'", "FASTA has no end marker: T3 is applied to GenBank streams only"},
		Real:            []string{"seqio.NewAutoScanner, GenBankParser and all sub-parsers, FastaParser, INSDCTableParser, QualifierParser", "gts.AsLocation/AsLocator/AsModifier/Selector/AsMolecule/AsTopology, seqio.AsDate", "pars"},
		Stub:            []string{"the reader argument (simpipe: chunk schedule, EOF/EIO at a chosen offset, data+error in one Read)", "process boundary"},
		HangIsViolation: true,
		NotDecided:      []string{"mode D is seeded input mutation riding in the harness, not simulation (no schedule or fault in a string)"},
	}
}

func (C07) Runs(tier string) int {
	if tier == "thorough" {
		return 16000
	}
	return 1200
}

func (C07) RunSeed(tier string, seed uint64, idx int) *core.Result {
	r := core.NewRNG(seed)
	res := &core.Result{Seed: seed, Probes: map[string]int{"length_consistency_cases": 0, "chunk_invariance_cases": 0}, Faults: map[string]int{}, Extended: map[string]int{}}
	x := &c07Run{res: res}
	mode := r.Pick([]int{40, 30, 15, 15, 6})
	switch mode {
	case 0: // A: fault sweep over an unedited stream
		sc := &c07Scenario{Kind: "stream", Parts: genParts(r), CRLF: r.Chance(1, 6)}
		sc.Pipe = simpipe.Spec{Chunks: genChunks(r), CutAt: -1}
		m := sc.build()
		if r.Chance(1, 5) && len(m.bounds) > 1 {
			// reads that end on (or one byte off) every record boundary
			sc.Pipe.Chunks = simpipe.AlignedChunks(m.bounds[1:], r.Range(-1, 1), 4096)
			res.Probes["record_aligned_chunk_schedules"]++
		}
		x.setBase(m)
		n := len(m.data)
		var offs []int
		full := 3000
		budget := 500
		if tier == "thorough" {
			full, budget = 12000, 1500
		}
		if n <= full {
			for c := 0; c < n; c++ {
				offs = append(offs, c)
			}
		} else {
			for c := 0; c < 600 && c < n; c++ {
				offs = append(offs, c)
			}
			for _, b := range m.bounds {
				for d := -4; d <= 80; d++ {
					if b+d >= 0 && b+d < n {
						offs = append(offs, b+d)
					}
				}
			}
			for _, k := range []int{4095, 4096, 4097, 8192} {
				if k < n {
					offs = append(offs, k)
				}
			}
			for len(offs) < budget {
				offs = append(offs, r.Intn(n))
			}
		}
		for _, c := range offs {
			s := *sc
			s.Pipe.CutAt = c
			if r.Chance(1, 4) {
				s.Pipe.CutKind = []string{"eio", "eio", "ueof", "closed"}[r.Intn(4)]
			}
			s.Pipe.WithData = r.Chance(1, 4)
			if r.Chance(1, 12) {
				s.CheckAlt, s.AltChunks = true, genChunks(r)
			}
			s.Rescan = r.Chance(1, 16)
			x.runStream(&s, m)
		}
		if idx%40 == 0 {
			s := *sc
			s.Pipe.CutAt = n / 2
			res.Sample, _ = json.Marshal(s)
		}
	case 1: // B: structure-aware edits
		parts := genParts(r)
		probe := (&c07Scenario{Parts: parts}).build()
		nl, nb := bytes.Count(probe.data, []byte("\n")), len(probe.data)
		k := 24
		if tier == "thorough" {
			k = 60
		}
		for i := 0; i < k; i++ {
			sc := &c07Scenario{Kind: "stream", Parts: parts, CRLF: r.Chance(1, 8)}
			for j := r.Range(1, 3); j > 0; j-- {
				sc.Edits = append(sc.Edits, genEdit(r, nl, nb))
			}
			sc.Pipe = simpipe.Spec{Chunks: genChunks(r), CutAt: -1}
			if r.Chance(1, 4) {
				sc.Pipe.CutAt = r.Intn(nb + 1)
				if r.Chance(1, 3) {
					sc.Pipe.CutKind = []string{"eio", "ueof", "closed"}[r.Intn(3)]
				}
			}
			sc.CheckAlt, sc.AltChunks = r.Chance(2, 3), genChunks(r)
			sc.Rescan = r.Chance(1, 3)
			x.runStream(sc, sc.build())
			if idx%40 == 1 && i == 0 {
				res.Sample, _ = json.Marshal(sc)
			}
		}
	case 2: // C: declared length vs ORIGIN block
		var part streamPart
		if r.Chance(1, 2) {
			part = streamPart{Corpus: []string{"NC_001422_part.gb", "pBAT5.txt", "NC_001422.gb"}[r.Intn(3)]}
		} else {
			g := genRec(r, 0)
			g.Contig = nil
			if g.SeqLen == 0 {
				g.SeqLen = r.Range(1, 300)
			}
			if len(g.Features) == 0 {
				g.Features = []featSpec{genFeature(r, 60)}
			}
			part = streamPart{Gen: &g}
		}
		probe := (&c07Scenario{Parts: []streamPart{part}}).build()
		ls := splitLines(probe.data)
		length := 0
		if a, b := originRange(ls); a >= 0 {
			length = countResidues(ls[a:b])
		}
		k := 16
		if tier == "thorough" {
			k = 60
		}
		for i := 0; i < k; i++ {
			sc := &c07Scenario{Kind: "stream", Parts: []streamPart{part}, CRLF: r.Chance(1, 8)}
			sc.Edits = []textEdit{genT4Edit(r, length)}
			if r.Chance(1, 4) {
				sc.Edits = append(sc.Edits, genT4Edit(r, length))
			}
			sc.Pipe = simpipe.Spec{Chunks: genChunks(r), CutAt: -1}
			sc.Rescan = r.Chance(1, 4)
			x.runStream(sc, sc.build())
			if idx%40 == 2 && i == 0 {
				res.Sample, _ = json.Marshal(sc)
			}
		}
	case 4: // E: scaling
		sc := &c07Scenario{Kind: "scaling", Shape: scalingShapes[r.Intn(len(scalingShapes))], N: r.Range(400, 900)}
		if r.Chance(1, 4) {
			sc.Shape = stringShapeNames[r.Intn(len(stringShapeNames))]
		}
		x.runScaling(sc)
		if idx%40 == 4 {
			res.Sample, _ = json.Marshal(sc)
		}
	case 3: // D: strings
		k := 400
		if tier == "thorough" {
			k = 2000
		}
		for i := 0; i < k; i++ {
			fn := stringFuncs[r.Intn(len(stringFuncs))]
			seeds := stringSeeds[fn]
			in := mutateString(r, seeds[r.Intn(len(seeds))])
			if fn != "AsDate" && fn != "AsMolecule" && fn != "AsTopology" && fn != "FeatureTable" {
				switch r.Intn(8) {
				case 6:
					in = fragmentNoise(r)
				case 7:
					in = smallLocation(r, 0)
					if fn == "AsLocator" && r.Chance(1, 2) {
						in = "@" + in
					} else if fn == "AsLocator" && r.Chance(1, 2) {
						// a location with something behind it
						in += []string{"x", "'UTR", "_signal", "..", " ", "/gene", ")", "abc", "-"}[r.Intn(9)]
					}
				case 0:
					in = grammarNoise(r)
				case 1: // a valid start with noise behind a separator
					in = seeds[r.Intn(len(seeds))] + []string{"/", "@", ",", "..", ""}[r.Intn(5)] + grammarNoise(r)
				}
			}
			if fn == "AsDate" && r.Chance(1, 2) {
				in = edgeDate(r)
			}
			sc := &c07Scenario{Kind: "string", Func: fn, Input: in}
			core.Current, core.CurrentSig = sc, "string:"+fn
			res.Evaluations++
			core.Tick()
			pnc, ok1 := callString(fn, in)
			oc := "rejected"
			if ok1 {
				oc = "accepted"
			}
			if strings.HasPrefix(pnc, "ACCEPTED-MALFORMED: ") {
				oc = "accepted-malformed"
				x.violate(sc, "malformed-accepted", fn, fmt.Sprintf("%s(%q) returned a value and no error although %s", fn, in, strings.TrimPrefix(pnc, "ACCEPTED-MALFORMED: ")))
			} else if pnc != "" {
				oc = "panic"
				x.violate(sc, "panic", panicSite(pnc), fmt.Sprintf("%s(%q) panicked: %s", fn, in, firstLine(pnc)))
			} else if pnc2, ok2 := callString(fn, in); pnc2 == "" && ok1 != ok2 {
				// the same string interpreted twice in one process
				x.violate(sc, "rescan-variance", "string:"+fn, fmt.Sprintf("%s(%q) accepted=%v the first time and accepted=%v the second time in the same process", fn, in, ok1, ok2))
			}
			x.key("string|" + fn + "|" + oc)
			if idx%40 == 3 && i == 0 {
				res.Sample, _ = json.Marshal(sc)
			}
		}
	}
	res.Violations = dedupe(x.vs)
	res.Digest = digestOf(res)
	return res
}

// dedupe keeps the first violation of each class/signature of a run.
func dedupe(vs []core.Violation) []core.Violation {
	seen := map[string]bool{}
	var out []core.Violation
	for _, v := range vs {
		if !seen[v.Key()] {
			seen[v.Key()] = true
			out = append(out, v)
		}
	}
	return out
}

func (C07) Replay(raw json.RawMessage) ([]core.Violation, string, error) {
	var sc c07Scenario
	if err := json.Unmarshal(raw, &sc); err != nil {
		return nil, "", err
	}
	res := &core.Result{Probes: map[string]int{}, Faults: map[string]int{}, Extended: map[string]int{}}
	x := &c07Run{res: res}
	if sc.Kind == "string" {
		core.Current, core.CurrentSig = &sc, "string:"+sc.Func
		if pnc, ok1 := callString(sc.Func, sc.Input); strings.HasPrefix(pnc, "ACCEPTED-MALFORMED: ") {
			x.violate(&sc, "malformed-accepted", sc.Func, fmt.Sprintf("%s(%q) returned a value and no error although %s", sc.Func, sc.Input, strings.TrimPrefix(pnc, "ACCEPTED-MALFORMED: ")))
		} else if pnc != "" {
			x.violate(&sc, "panic", panicSite(pnc), fmt.Sprintf("%s(%q) panicked: %s", sc.Func, sc.Input, firstLine(pnc)))
		} else if pnc2, ok2 := callString(sc.Func, sc.Input); pnc2 == "" && ok1 != ok2 {
			x.violate(&sc, "rescan-variance", "string:"+sc.Func, fmt.Sprintf("%s(%q) accepted=%v the first time and accepted=%v the second time in the same process", sc.Func, sc.Input, ok1, ok2))
		}
		return x.vs, digestOf(res), nil
	}
	if sc.Kind == "scaling" {
		x.runScaling(&sc)
		if res.Harness != "" {
			return nil, "", fmt.Errorf("%s", res.Harness)
		}
		return x.vs, digestOf(res), nil
	}
	m := sc.build()
	if p := os.Getenv("VERIF_DUMP"); p != "" {
		// for whoever triages a replay: the bytes the scenario stands for
		os.WriteFile(p, m.data, 0644)
	}
	if !m.edited {
		base := sc
		base.Pipe.CutAt = -1
		x.setBase(m)
	}
	x.runStream(&sc, m)
	res.Violations = x.vs
	return x.vs, digestOf(res), nil
}

func (C07) Candidates(raw json.RawMessage) []json.RawMessage {
	var sc c07Scenario
	if json.Unmarshal(raw, &sc) != nil {
		return nil
	}
	var out []json.RawMessage
	cl := func() c07Scenario {
		b, _ := json.Marshal(sc)
		var c c07Scenario
		json.Unmarshal(b, &c)
		return c
	}
	emit := func(c c07Scenario) {
		b, _ := json.Marshal(c)
		out = append(out, b)
	}
	if sc.Kind == "scaling" {
		if sc.N > 400 {
			c := cl()
			c.N = 400
			emit(c)
		}
		return out
	}
	if sc.Kind == "string" {
		for i := 0; i < len(sc.Input); i++ {
			c := cl()
			c.Input = sc.Input[:i] + sc.Input[i+1:]
			emit(c)
		}
		return out
	}
	// fewer parts (only later ones when a cut is present: offsets stay valid)
	for i := len(sc.Parts) - 1; i >= 1; i-- {
		c := cl()
		c.Parts = append(c.Parts[:i], c.Parts[i+1:]...)
		emit(c)
	}
	for i := range sc.Edits {
		c := cl()
		c.Edits = append(c.Edits[:i], c.Edits[i+1:]...)
		emit(c)
	}
	if len(sc.Pipe.Chunks) > 0 {
		c := cl()
		c.Pipe.Chunks = nil
		emit(c)
	}
	if sc.Pipe.WithData {
		c := cl()
		c.Pipe.WithData = false
		emit(c)
	}
	if sc.Pipe.CutKind != "" && sc.Pipe.CutKind != "eof" {
		c := cl()
		c.Pipe.CutKind = ""
		emit(c)
		if sc.Pipe.CutKind != "eio" {
			c := cl()
			c.Pipe.CutKind = "eio"
			emit(c)
		}
	}
	if sc.CheckAlt {
		c := cl()
		c.CheckAlt = false
		emit(c)
	}
	if sc.Rescan {
		c := cl()
		c.Rescan = false
		emit(c)
	}
	if sc.CRLF {
		c := cl()
		c.CRLF = false
		emit(c)
	}
	if len(sc.Edits) > 0 && sc.Pipe.CutAt >= 0 {
		c := cl()
		c.Pipe.CutAt = -1
		emit(c)
	}
	// a cut can move towards the start of the stream while the same field is hit
	if sc.Pipe.CutAt > 0 {
		for _, d := range []int{sc.Pipe.CutAt / 2, sc.Pipe.CutAt - 100, sc.Pipe.CutAt - 10, sc.Pipe.CutAt - 1} {
			if d >= 0 && d < sc.Pipe.CutAt {
				c := cl()
				c.Pipe.CutAt = d
				emit(c)
			}
		}
	}
	for i, p := range sc.Parts {
		if p.Corpus != "" && p.Corpus != "NC_001422_part.gb" && strings.HasSuffix(p.Corpus, ".gb") || p.Corpus == "pBAT5.txt" {
			c := cl()
			c.Parts[i] = streamPart{Corpus: "NC_001422_part.gb"}
			emit(c)
		}
		if p.Gen != nil && len(sc.Edits) == 0 && sc.Pipe.CutAt < 0 {
			for _, cand := range shrinkRec(*p.Gen) {
				c := cl()
				g := cand
				c.Parts[i].Gen = &g
				emit(c)
			}
		}
	}
	return out
}
