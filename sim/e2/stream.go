package e2

import (
	"bytes"
	"fmt"
	"reflect"
	"runtime/debug"
	"strings"

	"github.com/go-gts/gts"
	"github.com/go-gts/gts/internal/verifsim/simpipe"
	"github.com/go-gts/gts/seqio"
)

var regSnapshot [3][]string

// SnapshotRegistries records the init-time value of gts's process-global
// qualifier registries; called once from main.
func SnapshotRegistries() {
	regSnapshot[0] = append([]string(nil), seqio.QuotedQualifierNames...)
	regSnapshot[1] = append([]string(nil), seqio.LiteralQualifierNames...)
	regSnapshot[2] = append([]string(nil), seqio.ToggleQualifierNames...)
}

// processBoundary gives the code that runs next the process-global state of a
// freshly started gts.
func processBoundary() {
	seqio.QuotedQualifierNames = append([]string(nil), regSnapshot[0]...)
	seqio.LiteralQualifierNames = append([]string(nil), regSnapshot[1]...)
	seqio.ToggleQualifierNames = append([]string(nil), regSnapshot[2]...)
}

func registryState() string {
	q := len(seqio.QuotedQualifierNames) - len(regSnapshot[0])
	l := len(seqio.LiteralQualifierNames) - len(regSnapshot[1])
	t := len(seqio.ToggleQualifierNames) - len(regSnapshot[2])
	switch {
	case q == 0 && l == 0 && t == 0:
		return "pristine"
	case l > 0:
		return "learned-literal"
	case t > 0:
		return "learned-toggle"
	}
	return "learned-quoted"
}

// scanResult is what one simulated reader process observed.
type scanResult struct {
	Seqs     []gts.Sequence
	Err      error
	Panic    string
	Reads    int
	AfterErr int
	Reader   *simpipe.Reader
	// Unsticky: what a further call of Scan or Err changed about the end of
	// the scan ("" if nothing): a scanner that has stopped stays stopped, and
	// the error it recorded stays the error it reports.
	Unsticky string
}

// scanAll scans a stream to its end with the real auto-detecting scanner.
func scanAll(data []byte, spec simpipe.Spec, max int) (res scanResult) {
	rd := simpipe.New(data, spec)
	res.Reader = rd
	counted := false
	defer func() {
		if x := recover(); x != nil {
			res.Panic = fmt.Sprintf("%v\n%s", x, debug.Stack())
		}
		if !counted {
			res.Reads, res.AfterErr = rd.Reads, rd.ReadsAfterError
		}
	}()
	sc := seqio.NewAutoScanner(rd)
	stopped := true
	for sc.Scan() {
		res.Seqs = append(res.Seqs, sc.Value())
		if max > 0 && len(res.Seqs) >= max {
			stopped = false
			break
		}
	}
	res.Err = sc.Err()
	// the reads of the scan proper are what the other oracles count
	res.Reads, res.AfterErr, counted = rd.Reads, rd.ReadsAfterError, true
	if stopped {
		// callers that poll, or that call Err() in a deferred function after
		// another Scan(), must see what the loop above saw
		for k := 0; k < 2 && res.Unsticky == ""; k++ {
			again := sc.Scan()
			err2 := sc.Err()
			switch {
			case again:
				res.Unsticky = fmt.Sprintf("Scan() returned false and, called again, true (Err() was %v)", res.Err)
			case (err2 == nil) != (res.Err == nil):
				res.Unsticky = fmt.Sprintf("after Scan() had returned false Err() was %v; after one more call of Scan() it is %v", res.Err, err2)
			case err2 != nil && err2.Error() != res.Err.Error():
				res.Unsticky = fmt.Sprintf("after Scan() had returned false Err() was %q; after one more call of Scan() it is %q", res.Err, err2)
			}
		}
	}
	return
}

// writeSeq renders one sequence with the real writer.
func writeSeq(seq gts.Sequence, ft seqio.FileType) (out []byte, err error, pnc string) {
	defer func() {
		if x := recover(); x != nil {
			pnc = fmt.Sprintf("%v\n%s", x, debug.Stack())
		}
	}()
	var b bytes.Buffer
	_, err = seqio.NewWriter(&b, ft).WriteSeq(seq)
	return b.Bytes(), err, ""
}

func firstLine(s string) string {
	if i := strings.IndexByte(s, '\n'); i >= 0 {
		return s[:i]
	}
	return s
}

// panicSite extracts the innermost frame that belongs to gts from a stack.
func panicSite(stack string) string {
	lines := strings.Split(stack, "\n")
	for i := 0; i+1 < len(lines); i++ {
		l := lines[i]
		if strings.HasPrefix(l, "github.com/go-gts/gts") && !strings.Contains(l, "verifsim") {
			fn := l
			if j := strings.LastIndex(fn, "("); j > 0 {
				fn = fn[:j]
			}
			fn = strings.TrimPrefix(fn, "github.com/go-gts/gts")
			fn = strings.TrimPrefix(fn, "/")
			return fn
		}
	}
	return "outside-gts"
}

// fieldsOf extracts the GenBank header of a sequence, if it has one.
func fieldsOf(seq gts.Sequence) (seqio.GenBankFields, bool) {
	switch v := seq.Info().(type) {
	case seqio.GenBankFields:
		return v, true
	}
	return seqio.GenBankFields{}, false
}

func itemsOf(p gts.Props) []gts.Item {
	it := p.Items()
	if len(it) == 0 {
		return nil
	}
	return it
}

func strsEq(a, b []string) bool {
	if len(a) != len(b) {
		return false
	}
	for i := range a {
		if a[i] != b[i] {
			return false
		}
	}
	return true
}

// compareRecords reports the first field in which two GenBank-like sequences
// differ ("" if none). nil and empty collections are equal; extra fields are
// compared by name and value.
func compareRecords(a, b gts.Sequence, structural bool) (field, detail string) {
	if !bytes.Equal(a.Bytes(), b.Bytes()) {
		return "residues", fmt.Sprintf("%d vs %d residues", len(a.Bytes()), len(b.Bytes()))
	}
	fa, fb := a.Features(), b.Features()
	if len(fa) != len(fb) {
		return "feature-count", fmt.Sprintf("%d vs %d features", len(fa), len(fb))
	}
	for i := range fa {
		if fa[i].Key != fb[i].Key {
			return "feature-key", fmt.Sprintf("feature %d: %q vs %q", i, fa[i].Key, fb[i].Key)
		}
		if fa[i].Loc.String() != fb[i].Loc.String() {
			return "location", fmt.Sprintf("feature %d: %s vs %s", i, fa[i].Loc, fb[i].Loc)
		}
		if structural && !reflect.DeepEqual(fa[i].Loc, fb[i].Loc) {
			return "location-structure", fmt.Sprintf("feature %d: %#v vs %#v", i, fa[i].Loc, fb[i].Loc)
		}
		ia, ib := itemsOf(fa[i].Props), itemsOf(fb[i].Props)
		if len(ia) != len(ib) {
			return "qualifier-count", fmt.Sprintf("feature %d (%s): %d vs %d qualifiers", i, fa[i].Key, len(ia), len(ib))
		}
		// the rows as stored, not only what the accessors show: two rows with
		// the same name are legal in a Props value and Get() sees just the first
		ra, rb := fa[i].Props, fb[i].Props
		if len(ra) != len(rb) {
			return "qualifier-rows", fmt.Sprintf("feature %d (%s): %d vs %d stored qualifier rows", i, fa[i].Key, len(ra), len(rb))
		}
		for j := range ra {
			if !strsEq(ra[j], rb[j]) {
				return "qualifier-rows", fmt.Sprintf("feature %d (%s) stored row %d: %q vs %q", i, fa[i].Key, j, ra[j], rb[j])
			}
		}
		for j := range ia {
			if ia[j].Key != ib[j].Key {
				return "qualifier-name", fmt.Sprintf("feature %d qualifier %d: %q vs %q", i, j, ia[j].Key, ib[j].Key)
			}
			if ia[j].Value != ib[j].Value {
				return "qualifier-value:" + qualKind(ia[j].Key), fmt.Sprintf("feature %d /%s: %q vs %q", i, ia[j].Key, ia[j].Value, ib[j].Value)
			}
		}
	}
	ga, oka := fieldsOf(a)
	gb, okb := fieldsOf(b)
	if oka != okb {
		return "info-type", fmt.Sprintf("%T vs %T", a.Info(), b.Info())
	}
	if !oka {
		if fmt.Sprint(a.Info()) != fmt.Sprint(b.Info()) {
			return "info", fmt.Sprintf("%v vs %v", a.Info(), b.Info())
		}
		return "", ""
	}
	switch {
	case ga.LocusName != gb.LocusName:
		return "locus-name", fmt.Sprintf("%q vs %q", ga.LocusName, gb.LocusName)
	case ga.Molecule != gb.Molecule:
		return "molecule", fmt.Sprintf("%q vs %q", ga.Molecule, gb.Molecule)
	case ga.Topology != gb.Topology:
		return "topology", fmt.Sprintf("%v vs %v", ga.Topology, gb.Topology)
	case ga.Division != gb.Division:
		return "division", fmt.Sprintf("%q vs %q", ga.Division, gb.Division)
	case ga.Date != gb.Date:
		return "date", fmt.Sprintf("%v vs %v", ga.Date, gb.Date)
	case ga.Definition != gb.Definition:
		return "definition", fmt.Sprintf("%q vs %q", ga.Definition, gb.Definition)
	case ga.Accession != gb.Accession:
		return "accession", fmt.Sprintf("%q vs %q", ga.Accession, gb.Accession)
	case ga.Version != gb.Version:
		return "version", fmt.Sprintf("%q vs %q", ga.Version, gb.Version)
	case !strsEq(ga.Keywords, gb.Keywords):
		return "keywords", fmt.Sprintf("%q vs %q", ga.Keywords, gb.Keywords)
	case ga.Source.Species != gb.Source.Species:
		return "source", fmt.Sprintf("%q vs %q", ga.Source.Species, gb.Source.Species)
	case ga.Source.Name != gb.Source.Name:
		return "organism", fmt.Sprintf("%q vs %q", ga.Source.Name, gb.Source.Name)
	case !strsEq(ga.Source.Taxon, gb.Source.Taxon):
		return "taxonomy", fmt.Sprintf("%q vs %q", ga.Source.Taxon, gb.Source.Taxon)
	case !strsEq(ga.Comments, gb.Comments):
		return "comments", fmt.Sprintf("%q vs %q", ga.Comments, gb.Comments)
	case ga.Contig != gb.Contig:
		return "contig", fmt.Sprintf("%v vs %v", ga.Contig, gb.Contig)
	case fmt.Sprint(ga.Region) != fmt.Sprint(gb.Region):
		return "region", fmt.Sprintf("%v vs %v", ga.Region, gb.Region)
	}
	if len(ga.DBLink) != len(gb.DBLink) {
		return "dblink", fmt.Sprintf("%v vs %v", ga.DBLink, gb.DBLink)
	}
	for i := range ga.DBLink {
		if ga.DBLink[i] != gb.DBLink[i] {
			return "dblink", fmt.Sprintf("%v vs %v", ga.DBLink[i], gb.DBLink[i])
		}
	}
	if len(ga.References) != len(gb.References) {
		return "reference-count", fmt.Sprintf("%d vs %d", len(ga.References), len(gb.References))
	}
	for i := range ga.References {
		ra, rb := ga.References[i], gb.References[i]
		xa, xb := ra.Xref["PUBMED"], rb.Xref["PUBMED"]
		ra.Xref, rb.Xref = nil, nil
		if !reflect.DeepEqual(ra, rb) || xa != xb {
			return "reference", fmt.Sprintf("reference %d: %+v pubmed=%q vs %+v pubmed=%q", i, ra, xa, rb, xb)
		}
	}
	if len(ga.Extra) != len(gb.Extra) {
		return "extra-count", fmt.Sprintf("%d vs %d extra fields", len(ga.Extra), len(gb.Extra))
	}
	for i := range ga.Extra {
		if ga.Extra[i].Name != gb.Extra[i].Name || ga.Extra[i].Value != gb.Extra[i].Value {
			return "extra", fmt.Sprintf("%q=%q vs %q=%q", ga.Extra[i].Name, ga.Extra[i].Value, gb.Extra[i].Name, gb.Extra[i].Value)
		}
	}
	return "", ""
}

func qualKind(name string) string {
	switch {
	case isToggle(name):
		return "toggle"
	case isLiteral(name):
		return "literal"
	}
	for _, u := range unknownNames {
		if u == name {
			return "unknown-name"
		}
	}
	return "quoted"
}
