package e2

import (
	"bytes"
	"crypto/sha256"
	"encoding/json"
	"fmt"
	"strings"

	"github.com/go-gts/gts"
	"github.com/go-gts/gts/internal/verifsim/core"
	"github.com/go-gts/gts/internal/verifsim/corpus"
	"github.com/go-gts/gts/internal/verifsim/simpipe"
	"github.com/go-gts/gts/seqio"
)

func sha256sum(b []byte) []byte { s := sha256.Sum256(b); return s[:] }

type fastaRec struct {
	Desc     string `json:"desc"`
	Len      int    `json:"len"`
	Seed     uint64 `json:"seed,omitempty"`
	Alphabet string `json:"alphabet,omitempty"`
	AsBasic  bool   `json:"as_basic,omitempty"` // written as gts.New(desc, nil, residues) instead of seqio.Fasta
}

func (f fastaRec) residues() []byte {
	al := f.Alphabet
	if al == "" {
		al = "ACGT"
	}
	r := core.NewRNG(f.Seed)
	p := make([]byte, f.Len)
	for i := range p {
		p[i] = al[r.Intn(len(al))]
	}
	return p
}

type c17Scenario struct {
	// FailFirst, if >= 0, makes the writer process first write a decoy record
	// to a sink that fails after that many bytes (the caller sees the error and
	// carries on with the real stream on a healthy sink).
	FailFirst *int        `json:"fail_first,omitempty"`
	Recs      []fastaRec  `json:"recs,omitempty"`
	GB        []recSource `json:"gb,omitempty"` // GenBank records converted to FASTA
	CRLF      bool        `json:"crlf,omitempty"`
	Chunks    []int       `json:"chunks,omitempty"`
	AltChunks []int       `json:"alt_chunks,omitempty"`
	Align     int         `json:"align,omitempty"`  // as in C01: reads end Align-2 bytes after every record boundary
	PadTo     int         `json:"pad_to,omitempty"` // the first description is padded so that the second record starts at this offset
	// OutName, if set, is the output file name from which the writer's format
	// is detected (seqio.Detect), as the CLI does for -o; it always ends in
	// ".fasta", so FASTA is what must come out.
	OutName string `json:"out_name,omitempty"`
	// SharedBuffer: the residues of all records are consecutive windows of ONE
	// byte slice (each window's capacity reaches into the next one), as a
	// caller cutting a genome into pieces hands them to the writer.
	SharedBuffer bool `json:"shared_buffer,omitempty"`
	// ViaGenBank: the GenBank records are first written as GenBank and read
	// back by another process (gts extract ... | gts <cmd> -F fasta); the
	// FASTA description must still be that of the record that was written.
	ViaGenBank bool `json:"via_genbank,omitempty"`
	// Squeeze: blank lines are taken out of the stream before it is read.
	Squeeze bool `json:"squeeze,omitempty"`
}

var printable = func() string {
	var b []byte
	for c := byte(32); c <= 126; c++ { // the blank is printable too
		if c != '>' {
			b = append(b, c)
		}
	}
	return string(b)
}()

func genDesc(r *core.RNG) string {
	switch r.Intn(8) {
	case 0:
		return ""
	case 1:
		return "NC_001422.1 Coliphage phi-X174, complete genome"
	case 2:
		return "seq" + fmt.Sprint(r.Intn(1000))
	case 3:
		return "a > b; x >y"
	case 4:
		return " leading and trailing "
	case 5:
		n := r.Range(1, 200)
		p := make([]byte, n)
		for i := range p {
			p[i] = byte(r.Range(32, 126))
		}
		return string(p)
	case 6:
		// bytes that are not valid UTF-8: a Latin-1 header, a stray 0xff, a cut multi-byte sequence
		return []string{"prot\xe9ine de capside", "sample \xff\xfe 7", "caf\xc3", "\x80\x81 lead", "na\xefve \xe2\x82"}[r.Intn(5)]
	}
	return genText(r, 1, 12)
}

// modelResidues says, without asking gts, which residues a source record
// holds after its edits: the generator's own letters (or, for a corpus file,
// the letters of its ORIGIN block picked out by hand) taken through a model
// of the edits on a plain byte string. ok is false where the model has no
// opinion (complement and rotate; a corpus file without ORIGIN); the record's
// own Bytes() are then all there is to compare with.
func modelResidues(s recSource) (res []byte, ok bool) {
	if s.Gen != nil {
		res = s.Gen.residues()
	} else {
		text := corpus.Get(s.Corpus)
		i := bytes.Index(text, []byte("\nORIGIN"))
		if i < 0 {
			return nil, false
		}
		body := text[i+1:]
		if j := bytes.IndexByte(body, '\n'); j >= 0 {
			body = body[j+1:]
		}
		if j := bytes.Index(body, []byte("\n//")); j >= 0 {
			body = body[:j]
		}
		for _, c := range body {
			if c >= 'a' && c <= 'z' || c >= 'A' && c <= 'Z' {
				res = append(res, c)
			}
		}
	}
	for _, op := range s.Ops {
		n := len(res)
		clamp := func(i int) int {
			if n == 0 {
				return 0
			}
			if i < 0 {
				i = -i
			}
			return i % (n + 1)
		}
		guest := []byte("ttgacagct")
		for len(guest) < op.G {
			guest = append(guest, "ttgacagct"...)
		}
		switch op.Op {
		case "clear":
		case "reverse":
			rev := make([]byte, n)
			for i, c := range res {
				rev[n-1-i] = c
			}
			res = rev
		case "delete", "erase":
			i := clamp(op.I)
			k := op.N
			if i+k > n {
				k = n - i
			}
			res = append(append([]byte(nil), res[:i]...), res[i+k:]...)
		case "slice":
			i := clamp(op.I)
			j := i + op.N
			if j > n {
				j = n
			}
			res = append([]byte(nil), res[i:j]...)
		case "insert", "embed":
			i := clamp(op.I)
			res = append(append(append([]byte(nil), res[:i]...), guest...), res[i:]...)
		case "concat":
			res = append(append([]byte(nil), res...), res...)
		default:
			return nil, false
		}
	}
	return res, true
}

func genC17(r *core.RNG, tier string) *c17Scenario {
	sc := &c17Scenario{CRLF: r.Chance(1, 4), Chunks: genChunks(r), AltChunks: genChunks(r)}
	if r.Chance(1, 6) {
		b := r.Intn(240)
		sc.FailFirst = &b
	}
	if r.Chance(1, 4) {
		n := r.Range(1, 2)
		for i := 0; i < n; i++ {
			var src recSource
			if r.Chance(1, 3) {
				src.Corpus = gbCorpus[r.Intn(len(gbCorpus))]
			} else {
				g := genRec(r, i)
				if len(g.Features) == 0 {
					g.Features = []featSpec{genFeature(r, 50)}
				}
				src.Gen = &g
			}
			if r.Chance(1, 2) {
				src.Ops = []editOp{{Op: "slice", I: r.Intn(300), N: r.Range(1, 200)}}
			} else if r.Chance(1, 4) {
				src.Ops = genOps(r)
			}
			sc.GB = append(sc.GB, src)
		}
		if r.Chance(1, 4) {
			sc.OutName = fastaNames[r.Intn(len(fastaNames))]
		}
		sc.ViaGenBank = r.Chance(1, 3)
		return sc
	}
	n := r.Range(1, 5)
	for i := 0; i < n; i++ {
		f := fastaRec{Desc: genDesc(r), Seed: r.U64(), AsBasic: r.Chance(1, 3)}
		switch r.Intn(4) {
		case 0: // every remainder mod 70 gets its turn
			f.Len = 70*r.Intn(4) + r.Intn(70)
		case 1:
			f.Len = []int{0, 1, 69, 70, 71, 139, 140, 141, 210, 700}[r.Intn(10)]
		case 2:
			f.Len = r.Range(0, 3000)
		default:
			f.Len = r.Range(0, 150)
		}
		switch r.Intn(5) {
		case 0:
			f.Alphabet = printable
		case 1:
			f.Alphabet = "acgtn"
		case 2:
			f.Alphabet = "ACDEFGHIKLMNPQRSTVWY*-"
		}
		sc.Recs = append(sc.Recs, f)
	}
	if r.Chance(1, 6) {
		sc.Align = r.Range(1, 3)
	}
	if r.Chance(1, 6) {
		sc.OutName = fastaNames[r.Intn(len(fastaNames))]
	}
	sc.SharedBuffer = r.Chance(1, 5)
	sc.Squeeze = r.Chance(1, 6)
	if r.Chance(1, 30) {
		// a record whose laid-out body (residues plus line ends) is exactly, or one
		// off, a multiple of a buffer size somewhere below: 4 KiB, 32 KiB, 64 KiB
		b := []int{4096, 32768, 65536}[r.Intn(3)] * r.Range(1, 2)
		target := b + r.Range(-1, 1)
		l := target * 70 / 71
		for l+(l+69)/70 < target {
			l++
		}
		i := r.Intn(len(sc.Recs))
		sc.Recs[i].Len = l
		sc.Recs[i].Alphabet = ""
		if i == len(sc.Recs)-1 {
			sc.Recs = append(sc.Recs, fastaRec{Desc: "after the long one", Len: 17, Seed: 1})
		}
	}
	if len(sc.Recs) > 1 && r.Chance(1, 8) {
		// the second record's '>' lands on (or next to) a multiple of the reader's buffer size
		first := sc.Recs[0]
		size := 1 + len(first.Desc) + 1 + first.Len + (first.Len+69)/70
		if first.Len == 0 {
			size++
		}
		target := 4096*r.Range(1, 2) + r.Range(-1, 1)
		if size < target {
			sc.Recs[0].Desc = first.Desc + strings.Repeat("x", target-size)
			sc.PadTo = target
		}
	}
	return sc
}

type c17Run struct {
	sc  *c17Scenario
	res *core.Result
	vs  []core.Violation
}

func (x *c17Run) violate(class, sig, detail string) {
	b, _ := json.Marshal(x.sc)
	x.vs = append(x.vs, core.Violation{Class: class, Signature: sig, Detail: detail, Scenario: b})
}

func (x *c17Run) key(s string) {
	for _, k := range x.res.Keys {
		if k == s {
			return
		}
	}
	x.res.Keys = append(x.res.Keys, s)
}

// checkLayout verifies the 70-column layout of one written record.
func checkLayout(out []byte, desc string, n int) string {
	s := string(out)
	if !strings.HasSuffix(s, "\n") {
		return "does not end with a newline"
	}
	lines := strings.Split(strings.TrimSuffix(s, "\n"), "\n")
	if len(lines) == 0 || lines[0] != ">"+strings.ReplaceAll(desc, "\n", " ") {
		return "description line is not '>' + description on one line"
	}
	body := lines[1:]
	total := 0
	for i, l := range body {
		total += len(l)
		if i < len(body)-1 && len(l) != 70 {
			return fmt.Sprintf("residue line %d has %d columns", i+1, len(l))
		}
		if len(l) > 70 {
			return fmt.Sprintf("residue line %d has %d columns", i+1, len(l))
		}
		if len(l) == 0 && !(n == 0 && len(body) == 1) {
			return "empty residue line"
		}
	}
	if total != n {
		return fmt.Sprintf("%d residues laid out, %d expected", total, n)
	}
	return ""
}

var fastaNames = []string{"out.fasta", "NC_001422.1.fasta", "phiX174.v2.fasta", "a.b.c.fasta", "results.2026-10-01.fasta", "/u/run.1/out.fasta", "x.gb.fasta", "seq.FASTA.fasta"}

func (x *c17Run) exec() {
	core.Tick()
	sc, res := x.sc, x.res
	fastaType := seqio.FastaFile
	if sc.OutName != "" {
		fastaType = seqio.Detect(sc.OutName)
		res.Probes["format_detected_from_output_name"]++
	}
	type want struct {
		desc string
		data []byte
	}
	var wants []want
	var stream []byte
	var bounds []int
	var pieces [][]byte
	processBoundary()
	if sc.FailFirst != nil {
		// writer-side fault: a write that fails part way must not leak into later writes
		sink := &simpipe.Writer{Limit: *sc.FailFirst}
		decoy := seqio.Fasta{Desc: "decoy record that is lost", Data: bytes.Repeat([]byte("NNNNNNNNNN"), 20)}
		func() {
			defer func() { recover() }()
			seqio.NewWriter(sink, seqio.FastaFile).WriteSeq(decoy)
		}()
		res.Faults["writer-sink-fails-after-B-bytes"]++
		x.key(fmt.Sprintf("failed-write-first|accepted=%d", len(sink.Data)))
	}
	if len(sc.GB) > 0 {
		// conversion GenBank -> FASTA
		for i, s := range sc.GB {
			var seq gts.Sequence
			if s.Corpus != "" {
				r := scanAll(corpus.Get(s.Corpus), simpipe.Spec{CutAt: -1}, 0)
				if r.Panic != "" || r.Err != nil || len(r.Seqs) == 0 {
					res.Harness = "c17: corpus file does not scan: " + s.Corpus
					return
				}
				seq = r.Seqs[0]
			} else {
				seq = s.Gen.build()
			}
			bad := false
			for _, op := range s.Ops {
				v, pnc := applyOp(seq, op)
				if pnc != "" {
					res.Extended["edit-op-panicked:"+op.Op]++
					bad = true
					break
				}
				seq = v
			}
			if bad {
				continue
			}
			f, ok := fieldsOf(seq)
			if !ok {
				continue
			}
			if sc.ViaGenBank {
				text, err, pnc := writeSeq(seq, seqio.GenBankFile)
				if err != nil || pnc != "" {
					res.Extended["genbank-writer-failed-on-record-to-convert"]++
					continue
				}
				processBoundary()
				r := scanAll(text, simpipe.Spec{Chunks: sc.Chunks, CutAt: -1}, 0)
				if r.Panic != "" || r.Err != nil || len(r.Seqs) != 1 {
					continue // closure of GenBank output is C01's business
				}
				seq = r.Seqs[0]
				res.Probes["conversions_of_records_read_back_from_genbank"]++
				x.key("conversion|via-genbank")
			}
			out, err, pnc := writeSeq(seq, fastaType)
			res.Evaluations++
			if pnc != "" {
				x.violate("panic", panicSite(pnc), "FASTA writer panicked on a GenBank record: "+firstLine(pnc))
				continue
			}
			if err != nil {
				x.violate("conversion", "writer-error", fmt.Sprintf("GenBank record %d cannot be written as FASTA: %v", i, err))
				continue
			}
			desc := f.Version + " " + f.Definition
			region := "whole"
			if seg, ok := f.Region.(gts.Segment); ok {
				desc = fmt.Sprintf("%s:%d-%d %s", f.Version, seg[0]+1, seg[1], f.Definition)
				region = "slice"
			}
			desc = strings.ReplaceAll(desc, "\n", " ")
			x.key("conversion|" + region + "|" + srcKind(s))
			// the residues the FASTA record must hold: what the record is made
			// of, not what gts says it holds
			expect, modelled := modelResidues(s)
			if !modelled {
				expect = append([]byte(nil), seq.Bytes()...)
			} else {
				res.Probes["conversions_judged_by_residues_known_without_gts"]++
			}
			if msg := checkLayout(out, desc, len(expect)); msg != "" {
				x.violate("conversion", "layout-or-description", fmt.Sprintf("record %d (%s): %s; first line %q, expected %q", i, srcKind(s), msg, firstLine(string(out)), ">"+desc))
			}
			wants = append(wants, want{desc, expect})
			stream = append(stream, out...)
			bounds, pieces = append(bounds, len(stream)), append(pieces, out)
			res.Probes["genbank_to_fasta_conversions"]++
		}
	} else {
		var shared []byte
		var offs []int
		if sc.SharedBuffer {
			for _, f := range sc.Recs {
				offs = append(offs, len(shared))
				shared = append(shared, f.residues()...)
			}
			shared = append(shared, "tail of the buffer"...)
			res.Probes["records_as_windows_of_one_buffer"]++
		}
		for i, f := range sc.Recs {
			data := f.residues()
			if sc.SharedBuffer {
				// what must come back is the content before any write touched the buffer
				data = shared[offs[i] : offs[i]+f.Len]
			}
			expect := append([]byte(nil), f.residues()...)
			var seq gts.Sequence = seqio.Fasta{Desc: f.Desc, Data: data}
			if f.AsBasic {
				seq = gts.New(f.Desc, nil, data)
			}
			out, err, pnc := writeSeq(seq, fastaType)
			res.Evaluations++
			if pnc != "" {
				x.violate("panic", panicSite(pnc), "FASTA writer panicked: "+firstLine(pnc))
				return
			}
			if err != nil {
				x.violate("closure", "writer-error", fmt.Sprintf("record %d: %v", i, err))
				return
			}
			if msg := checkLayout(out, f.Desc, f.Len); msg != "" {
				x.violate("layout", lenClass70(f.Len), fmt.Sprintf("record %d (%d residues): %s", i, f.Len, msg))
			}
			lc := "other"
			switch {
			case f.Len == 0:
				lc = "0"
			case f.Len%70 == 0:
				lc = "multiple-of-70"
			case f.Len%70 == 1:
				lc = "70k+1"
			case f.Len%70 == 69:
				lc = "70k+69"
			}
			x.key(fmt.Sprintf("write|len=%s|rem=%d", lc, f.Len%70))
			wants = append(wants, want{f.Desc, expect})
			stream = append(stream, out...)
			bounds, pieces = append(bounds, len(stream)), append(pieces, out)
		}
	}
	if len(wants) == 0 {
		return
	}
	if sc.Squeeze && sc.Align == 0 {
		// the layout other tools write: no blank line behind the header of an
		// entry without residues - the next header follows at once
		stream = bytes.ReplaceAll(stream, []byte("\n\n"), []byte("\n"))
		res.Probes["streams_without_blank_lines"]++
	}
	le := "lf"
	if sc.CRLF {
		le = "crlf"
		stream = bytes.ReplaceAll(stream, []byte("\n"), []byte("\r\n"))
		res.Probes["crlf_streams"]++
	}
	read := func(chunks []int) (scanResult, bool) {
		processBoundary()
		r := scanAll(stream, simpipe.Spec{Chunks: chunks, CutAt: -1}, 0)
		res.SimOps += r.Reads
		res.Evaluations++
		if r.Panic != "" {
			x.violate("panic", panicSite(r.Panic), "reader panicked on a FASTA stream gts wrote: "+firstLine(r.Panic))
			return r, false
		}
		return r, true
	}
	chunks1 := sc.Chunks
	if sc.Align != 0 && len(bounds) > 0 {
		delta := sc.Align - 2
		bb := bounds
		if sc.CRLF {
			bb = nil // offsets moved; computed again below
			off := 0
			for _, p := range pieces {
				off += len(p) + bytes.Count(p, []byte("\n"))
				bb = append(bb, off)
			}
		}
		chunks1 = simpipe.AlignedChunks(bb, delta, 4096)
		res.Probes["record_aligned_chunk_schedules"]++
	}
	r1, ok := read(chunks1)
	if !ok {
		return
	}
	x.key(fmt.Sprintf("read|n=%d|%s|chunks=%s", len(wants), le, chunkClass(sc.Chunks)))
	if r1.Err != nil {
		x.violate("closure", le+"|"+errSig(r1.Err), fmt.Sprintf("a %d-record FASTA stream written by gts is rejected: %v", len(wants), r1.Err))
		return
	}
	if len(r1.Seqs) != len(wants) {
		x.violate("record-count", le, fmt.Sprintf("%d records written, %d read back", len(wants), len(r1.Seqs)))
		return
	}
	for i, w := range wants {
		got := r1.Seqs[i]
		d := fmt.Sprint(got.Info())
		if d != w.desc {
			x.violate("description", le, fmt.Sprintf("record %d: description %q read back as %q", i, w.desc, d))
		}
		if !bytes.Equal(got.Bytes(), w.data) {
			x.violate("residues", le+"|"+lenClass70(len(w.data)), fmt.Sprintf("record %d: %d residues written, %d read back (first difference at %d)", i, len(w.data), len(got.Bytes()), firstDiff(got.Bytes(), w.data)))
		}
	}
	r2, ok := read(sc.AltChunks)
	if !ok {
		return
	}
	if (r2.Err == nil) != (r1.Err == nil) || len(r2.Seqs) != len(r1.Seqs) {
		x.violate("chunk-variance", "count", fmt.Sprintf("chunks %v: %d records; chunks %v: %d records", sc.Chunks, len(r1.Seqs), sc.AltChunks, len(r2.Seqs)))
		return
	}
	for i := range r1.Seqs {
		if fmt.Sprint(r1.Seqs[i].Info()) != fmt.Sprint(r2.Seqs[i].Info()) || !bytes.Equal(r1.Seqs[i].Bytes(), r2.Seqs[i].Bytes()) {
			x.violate("chunk-variance", "content", fmt.Sprintf("record %d differs between chunk schedules %v and %v", i, sc.Chunks, sc.AltChunks))
		}
	}
}

func lenClass70(n int) string {
	switch {
	case n == 0:
		return "len=0"
	case n%70 == 0:
		return "len=multiple-of-70"
	}
	return "len=other"
}

func firstDiff(a, b []byte) int {
	for i := 0; i < len(a) && i < len(b); i++ {
		if a[i] != b[i] {
			return i
		}
	}
	if len(a) < len(b) {
		return len(a)
	}
	return len(b)
}

type C17 struct{}

func (C17) Meta() core.Meta {
	return core.Meta{
		Property:   "C17",
		Level:      "exploration",
		NonVacuous: []string{"crlf_streams", "genbank_to_fasta_conversions", "conversions_of_records_read_back_from_genbank", "record_aligned_chunk_schedules"},
		Rule: "Each simulated run draws from its seed a stream of 1-5 FASTA records (descriptions: empty, with '>', with leading/trailing blanks, arbitrary printable; residue " +
			"counts sweeping every remainder mod 70 incl. 0 and exact multiples; alphabets ACGT / lower case / amino acids / every printable byte except '>'), or 1-2 GenBank " +
			"records (generated or corpus, optionally sliced or edited) converted to FASTA. A simulated writer process writes them with the real FASTA writer; the 70-column " +
			"layout and the one-line description are checked on the bytes; a fresh reader process reads the stream (LF or CRLF variant) from a simulated pipe under a seeded " +
			"chunk schedule and again under a second schedule. Oracles: N records back in order, description and residues equal, conversion description = version[:a-b] + " +
			"definition and residues equal, chunk invariance. A case is one oracle evaluation; it is non-trivial when its state key is new.",
		StateRule:   "distinct (length class, remainder mod 70) for writes, (records in stream, line ending, chunk class) for reads, (slice/whole, record source) for conversions",
		Assumptions: []string{"FASTA has no end marker: truncation faults have no oracle here and are left to C07", "the expected conversion description follows the property text: version, ':a-b' for slices, blank, definition, line breaks replaced by blanks"},
		Real:        []string{"seqio FastaWriter / Fasta.WriteTo / GenBankFields.String", "seqio.NewAutoScanner / FastaParser", "gts.Slice and other edit operations", "pars, wrap"},
		Stub:        []string{"the pipe between writer and reader (simpipe)", "process boundary"},
		NotDecided:  []string{"residue content is seeded input generation; the simulator contributes the chunk schedule, record framing and process boundary dimensions"},
	}
}

func (C17) Runs(tier string) int {
	if tier == "thorough" {
		return 800000
	}
	return 60000
}

func (C17) RunSeed(tier string, seed uint64, idx int) *core.Result {
	r := core.NewRNG(seed)
	res := &core.Result{Seed: seed, Probes: map[string]int{"genbank_to_fasta_conversions": 0, "crlf_streams": 0}, Faults: map[string]int{}, Extended: map[string]int{}}
	sc := genC17(r, tier)
	core.Current, core.CurrentSig = sc, "c17"
	x := &c17Run{sc: sc, res: res}
	x.exec()
	res.Violations = x.vs
	res.Digest = digestOf(res)
	if idx%1000 == 0 {
		res.Sample, _ = json.Marshal(sc)
	}
	return res
}

func (C17) Replay(raw json.RawMessage) ([]core.Violation, string, error) {
	var sc c17Scenario
	if err := json.Unmarshal(raw, &sc); err != nil {
		return nil, "", err
	}
	res := &core.Result{Probes: map[string]int{}, Faults: map[string]int{}, Extended: map[string]int{}}
	x := &c17Run{sc: &sc, res: res}
	x.exec()
	if res.Harness != "" {
		return nil, "", fmt.Errorf("%s", res.Harness)
	}
	res.Violations = x.vs
	return x.vs, digestOf(res), nil
}

func (C17) Candidates(raw json.RawMessage) []json.RawMessage {
	var sc c17Scenario
	if json.Unmarshal(raw, &sc) != nil {
		return nil
	}
	var out []json.RawMessage
	cl := func() c17Scenario {
		b, _ := json.Marshal(sc)
		var c c17Scenario
		json.Unmarshal(b, &c)
		return c
	}
	emit := func(c c17Scenario) {
		b, _ := json.Marshal(c)
		out = append(out, b)
	}
	for i := range sc.Recs {
		if len(sc.Recs) > 1 {
			c := cl()
			c.Recs = append(c.Recs[:i], c.Recs[i+1:]...)
			emit(c)
		}
	}
	for i := range sc.GB {
		if len(sc.GB) > 1 {
			c := cl()
			c.GB = append(c.GB[:i], c.GB[i+1:]...)
			emit(c)
		}
		for _, cand := range func() []recSpec {
			if sc.GB[i].Gen == nil {
				return nil
			}
			return shrinkRec(*sc.GB[i].Gen)
		}() {
			c := cl()
			g := cand
			c.GB[i].Gen = &g
			emit(c)
		}
	}
	if sc.CRLF {
		c := cl()
		c.CRLF = false
		emit(c)
	}
	if sc.FailFirst != nil {
		c := cl()
		c.FailFirst = nil
		emit(c)
	}
	if sc.Align != 0 {
		c := cl()
		c.Align = 0
		emit(c)
	}
	if sc.SharedBuffer {
		c := cl()
		c.SharedBuffer = false
		emit(c)
	}
	if sc.OutName != "" && sc.OutName != "out.fasta" {
		c := cl()
		c.OutName = "out.fasta"
		emit(c)
	}
	if len(sc.Chunks) > 0 {
		c := cl()
		c.Chunks = nil
		emit(c)
	}
	if len(sc.AltChunks) > 0 {
		c := cl()
		c.AltChunks = nil
		emit(c)
	}
	for i, f := range sc.Recs {
		if f.Desc != "d" {
			c := cl()
			c.Recs[i].Desc = "d"
			emit(c)
		}
		if f.Alphabet != "" {
			c := cl()
			c.Recs[i].Alphabet = ""
			emit(c)
		}
		if f.Len > 70 {
			c := cl()
			c.Recs[i].Len = f.Len % 70
			emit(c)
			c = cl()
			c.Recs[i].Len = 70 + f.Len%70
			emit(c)
		}
		if f.Len > 0 {
			c := cl()
			c.Recs[i].Len = f.Len / 2
			emit(c)
		}
	}
	return out
}
