// Package e2 is the stream engine: real seqio scanners and writers over
// simulated pipes, across simulated process boundaries. DESIGN.md §5-§7.
package e2

import (
	"fmt"
	"strings"
	"time"

	"github.com/go-gts/gts"
	"github.com/go-gts/gts/internal/verifsim/core"
	"github.com/go-gts/gts/seqio"
)

// ---- locations ----

type locSpec struct {
	Kind string    `json:"k"` // range | point | between | ambig | join | order | compl
	A    int       `json:"a,omitempty"`
	B    int       `json:"b,omitempty"`
	P5   bool      `json:"p5,omitempty"`
	P3   bool      `json:"p3,omitempty"`
	Sub  []locSpec `json:"sub,omitempty"`
}

func (l locSpec) build() gts.Location {
	switch l.Kind {
	case "point":
		return gts.Point(l.A)
	case "between":
		return gts.Between(l.A)
	case "ambig":
		return gts.Ambiguous{Start: l.A, End: l.B}
	case "join", "order":
		subs := make([]gts.Location, len(l.Sub))
		for i, s := range l.Sub {
			subs[i] = s.build()
		}
		if l.Kind == "join" {
			return gts.Join(subs...)
		}
		return gts.Order(subs...)
	case "compl":
		inner := l.Sub[0].build()
		if c, ok := inner.(gts.Complemented); ok {
			// complement(complement(x)) is x: the format cannot tell them apart
			// and gts.Join hands back a Complemented when every part is one
			return c.Location
		}
		return gts.Complemented{Location: inner}
	}
	return gts.PartialRange(l.A, l.B, gts.Partial{Partial5: l.P5, Partial3: l.P3})
}

func genSimpleLoc(r *core.RNG, n int) locSpec {
	if n < 2 {
		n = 2
	}
	a := r.Intn(n - 1)
	b := a + 1 + r.Intn(n-a-1+1)
	if b > n {
		b = n
	}
	if b <= a {
		b = a + 1
	}
	switch r.Pick([]int{60, 12, 8, 8}) {
	case 1:
		return locSpec{Kind: "point", A: a}
	case 2:
		return locSpec{Kind: "between", A: a}
	case 3:
		if b-a < 2 {
			b = a + 2
		}
		return locSpec{Kind: "ambig", A: a, B: b}
	}
	l := locSpec{Kind: "range", A: a, B: b}
	if b-a < 2 {
		l.B = a + 2 // a one-base range prints as a point
	}
	if r.Chance(1, 6) {
		l.P5 = true
	}
	if r.Chance(1, 6) {
		l.P3 = true
	}
	return l
}

// genLoc produces a location over a sequence of length n. Parts of joins and
// orders are kept apart by at least one base so that gts.Join does not merge
// them (an abutting raw Joined is outside what the format can express).
func genLoc(r *core.RNG, n, depth int) locSpec {
	if n < 12 {
		n = 12
	}
	switch r.Pick([]int{55, 15, 8, 22}) {
	case 1, 2:
		kind := "join"
		if r.Chance(1, 3) {
			kind = "order"
		}
		if r.Chance(1, 5) {
			// parts that touch, overlap, repeat or nest: gts.Join / gts.Order reduce
			// them, and the reduced value is what gets written
			l := locSpec{Kind: kind}
			p := r.Range(1, n-8)
			for i, k := 0, r.Range(2, 5); i < k; i++ {
				switch r.Intn(6) {
				case 0:
					l.Sub = append(l.Sub, locSpec{Kind: "point", A: p})
				case 1:
					l.Sub = append(l.Sub, locSpec{Kind: "between", A: p})
				case 2:
					w := r.Range(2, 5)
					l.Sub = append(l.Sub, locSpec{Kind: "range", A: p, B: p + w})
					p += w
				case 3:
					w := r.Range(2, 4)
					l.Sub = append(l.Sub, locSpec{Kind: "range", A: p, B: p + w, P3: r.Chance(1, 2)})
					l.Sub = append(l.Sub, locSpec{Kind: "range", A: p + w, B: p + w + 2, P5: r.Chance(1, 2)})
					p += w + 2
				case 4:
					if depth < 2 {
						l.Sub = append(l.Sub, locSpec{Kind: "join", Sub: []locSpec{{Kind: "point", A: p}, {Kind: "between", A: p}}})
					}
				case 5:
					p += r.Range(0, 1)
				}
				if p > n-6 {
					break
				}
			}
			if len(l.Sub) >= 2 {
				return l
			}
		}
		k := r.Range(2, 4)
		seg := n / k
		if seg < 4 {
			return genSimpleLoc(r, n)
		}
		l := locSpec{Kind: kind}
		for i := 0; i < k; i++ {
			lo := i * seg
			a := lo + r.Intn(seg/2)
			b := a + 2 + r.Intn(seg-(a-lo)-3+1)
			if b > lo+seg-1 {
				b = lo + seg - 1
			}
			if b-a < 2 {
				b = a + 2
			}
			var s locSpec
			if depth < 2 && r.Chance(1, 8) {
				s = locSpec{Kind: "compl", Sub: []locSpec{{Kind: "range", A: a, B: b}}}
			} else if r.Chance(1, 8) {
				s = locSpec{Kind: "point", A: a}
			} else {
				s = locSpec{Kind: "range", A: a, B: b}
			}
			l.Sub = append(l.Sub, s)
		}
		return l
	case 3:
		if depth < 2 {
			inner := genLoc(r, n, depth+1)
			if inner.Kind == "compl" {
				return inner
			}
			return locSpec{Kind: "compl", Sub: []locSpec{inner}}
		}
	}
	return genSimpleLoc(r, n)
}

// ---- features ----

type qualSpec struct {
	Name  string `json:"n"`
	Value string `json:"v"`
}

type featSpec struct {
	Key   string     `json:"key"`
	Loc   locSpec    `json:"loc"`
	Quals []qualSpec `json:"quals,omitempty"`
}

func (f featSpec) build() gts.Feature {
	props := gts.Props{}
	for _, q := range f.Quals {
		props.Add(q.Name, q.Value)
	}
	return gts.NewFeature(f.Key, f.Loc.build(), props)
}

// featKeys includes the INSDC keys that are not plain words: an apostrophe, a
// hyphen, a leading hyphen; and keys that fill the 15 columns a key may take.
var featKeys = []string{"source", "gene", "CDS", "misc_feature", "rep_origin", "mRNA", "promoter", "exon", "sig_peptide", "regulatory", "misc_RNA", "mat_peptide", "variation",
	"5'UTR", "3'UTR", "D-loop", "-10_signal", "-35_signal", "misc_difference", "mobile_element", "N_region", "primer_bind", "polyA_site",
	// user-defined keys (gts define, gts search -k) wider than the 15 columns of the INSDC keys
	"restriction_site", "primer_bind_site2", "transcription_start_site"}
var quotedNames = []string{"gene", "product", "note", "locus_tag", "db_xref", "organism", "mol_type", "function", "translation", "protein_id", "strain"}
var literalNames = []string{"codon_start", "transl_table", "number", "citation", "rpt_type", "anticodon"}
var toggleNames = []string{"pseudo", "partial", "germline", "focus", "environmental_sample"}
var unknownNames = []string{"vntifkey", "label", "sim_custom", "x_ref2", "ApEinfo_fwdcolor"}
var words = []string{"phage", "coat", "protein", "hypothetical", "replication", "A", "B2", "ori", "synthetic", "construct", "E.", "coli", "K-12", "lacZ", "alpha", "(partial)", "5'", "region", "putative", "DNA-binding", "42", "3.1.2", "a/b", "x=y", "[EC]", "100%"}

// quoteWords carry the two bytes that have a meaning inside a quoted value: the
// double quote (written twice inside a value) and the backslash (no meaning in
// the format, but an escape character in many parsers).
var quoteWords = []string{"\"", "\"\"", "\"quoted\"", "say \"hi\" twice", "5'-\"", "C:\\dir\\", "\\", "\\\"x", "a\\b", "end\\"}

// genQuotedText is genText with, now and then, a word holding a double quote or
// a backslash spliced in at the start, in the middle or at the end.
func genQuotedText(r *core.RNG, minw, maxw int) string {
	t := genText(r, minw, maxw)
	if !r.Chance(1, 7) {
		return t
	}
	q := quoteWords[r.Intn(len(quoteWords))]
	switch r.Intn(4) {
	case 0:
		return q + " " + t
	case 1:
		return t + " " + q
	case 2:
		return q
	}
	ws := strings.Split(t, " ")
	ws[r.Intn(len(ws))] = q
	return strings.Join(ws, " ")
}

func genText(r *core.RNG, minw, maxw int) string {
	n := r.Range(minw, maxw)
	ss := make([]string, n)
	for i := range ss {
		ss[i] = words[r.Intn(len(words))]
	}
	return strings.Join(ss, " ")
}

// wrapAt breaks s into lines of at most w columns at blanks, the way GenBank
// values are wrapped; it never produces empty lines or trailing blanks.
func wrapAt(s string, w int) string {
	var lines []string
	cur := ""
	for _, tok := range strings.Split(s, " ") {
		if cur == "" {
			cur = tok
		} else if len(cur)+1+len(tok) <= w {
			cur += " " + tok
		} else {
			lines = append(lines, cur)
			cur = tok
		}
	}
	if cur != "" {
		lines = append(lines, cur)
	}
	return strings.Join(lines, "\n")
}

func genQual(r *core.RNG) qualSpec {
	switch r.Pick([]int{50, 20, 12, 18}) {
	case 1:
		n := literalNames[r.Intn(len(literalNames))]
		v := fmt.Sprint(r.Range(1, 30))
		switch n {
		case "rpt_type":
			v = "tandem"
		case "anticodon":
			v = "(pos:10..12,aa:Ser)"
		case "citation":
			v = fmt.Sprintf("[%d]", r.Range(1, 9))
		}
		return qualSpec{n, v}
	case 2:
		return qualSpec{toggleNames[r.Intn(len(toggleNames))], ""}
	case 3:
		// names gts has no type for: the reader learns one on first sight, for the whole process
		n := unknownNames[r.Intn(len(unknownNames))]
		switch r.Intn(5) {
		case 0:
			return qualSpec{n, ""}
		case 1:
			return qualSpec{n, fmt.Sprint(r.Range(1, 99))}
		}
		if r.Chance(1, 6) {
			// several lines, one of which may look like the start of a qualifier
			return qualSpec{n, genText(r, 1, 3) + "\n" + []string{"/", "", "x"}[r.Intn(3)] + genText(r, 1, 3)}
		}
		return qualSpec{n, genQuotedText(r, 1, 4)}
	}
	n := quotedNames[r.Intn(len(quotedNames))]
	switch r.Intn(8) {
	case 6: // several lines of uneven length, some of them short
		var ls []string
		for i := r.Range(2, 5); i > 0; i-- {
			switch r.Intn(4) {
			case 0:
				ls = append(ls, words[r.Intn(len(words))])
			case 1:
				ls = append(ls, "x")
			case 2:
				if len(ls) > 0 && r.Chance(1, 2) {
					// a line that itself starts with blanks: fewer than, as many as
					// and more than the indent continuation lines are written with
					ls = append(ls, strings.Repeat(" ", []int{1, 20, 21, 22, 42, 43}[r.Intn(6)])+words[r.Intn(len(words))])
					break
				}
				fallthrough
			default:
				ls = append(ls, genQuotedText(r, 2, 9))
			}
		}
		return qualSpec{n, strings.Join(ls, "\n")}
	case 5: // a value that begins or ends with a line break
		if r.Chance(1, 2) {
			return qualSpec{n, "\n" + genText(r, 1, 5)}
		}
		return qualSpec{n, genText(r, 1, 5) + "\n"}
	case 7: // paragraphs: a blank line inside the value
		return qualSpec{n, genText(r, 2, 6) + "\n\n" + genText(r, 1, 5) + "\n" + genText(r, 3, 8)}
	case 0:
		return qualSpec{n, ""}
	case 1: // a value long enough to be written on several lines
		return qualSpec{n, wrapAt(genText(r, 12, 40), 58)}
	case 2:
		if n == "translation" {
			return qualSpec{n, wrapAt(strings.Repeat("MKVLAAGIVGLCTPQWERTYHNDS ", r.Range(1, 6)), 58)}
		}
		return qualSpec{n, "/" + genText(r, 1, 3)}
	}
	return qualSpec{n, genQuotedText(r, 1, 6)}
}

func genFeature(r *core.RNG, n int) featSpec {
	f := featSpec{Key: featKeys[r.Intn(len(featKeys))], Loc: genLoc(r, n, 0)}
	k := r.Pick([]int{2, 4, 4, 2, 1})
	for i := 0; i < k; i++ {
		f.Quals = append(f.Quals, genQual(r))
	}
	if r.Chance(1, 5) && len(f.Quals) > 0 {
		// a repeated qualifier name
		q := genQual(r)
		q.Name = f.Quals[0].Name
		if isToggle(q.Name) {
			q.Value = ""
		} else if isLiteral(q.Name) {
			q.Value = fmt.Sprint(r.Range(1, 9))
		} else if q.Value == "" {
			q.Value = "again"
		}
		f.Quals = append(f.Quals, q)
	}
	return f
}

func isToggle(n string) bool {
	for _, t := range toggleNames {
		if t == n {
			return true
		}
	}
	return false
}

func isLiteral(n string) bool {
	for _, t := range literalNames {
		if t == n {
			return true
		}
	}
	return false
}

// ---- records ----

type refSpec struct {
	Number  int    `json:"number"`
	Info    string `json:"info,omitempty"`
	Authors string `json:"authors,omitempty"`
	Group   string `json:"group,omitempty"`
	Title   string `json:"title,omitempty"`
	Journal string `json:"journal,omitempty"`
	Pubmed  string `json:"pubmed,omitempty"`
	Remark  string `json:"remark,omitempty"`
}

type recSpec struct {
	Locus      string      `json:"locus"`
	Molecule   string      `json:"molecule"`
	Circular   bool        `json:"circular,omitempty"`
	Division   string      `json:"division,omitempty"`
	Date       [3]int      `json:"date"` // year, month, day
	Definition string      `json:"definition"`
	Accession  string      `json:"accession,omitempty"`
	Version    string      `json:"version,omitempty"`
	DBLink     [][2]string `json:"dblink,omitempty"`
	Keywords   []string    `json:"keywords,omitempty"`
	Species    string      `json:"species,omitempty"`
	Organism   string      `json:"organism,omitempty"`
	Taxon      []string    `json:"taxon,omitempty"`
	Refs       []refSpec   `json:"refs,omitempty"`
	Comments   []string    `json:"comments,omitempty"`
	Extra      [][2]string `json:"extra,omitempty"`
	Contig     *[3]string  `json:"contig,omitempty"` // accession, head, tail (1-based, as printed)
	ContigHead int         `json:"contig_head,omitempty"`
	ContigTail int         `json:"contig_tail,omitempty"`
	Features   []featSpec  `json:"features"`
	SeqLen     int         `json:"seqlen"`
	SeqSeed    uint64      `json:"seqseed,omitempty"`
	Alphabet   string      `json:"alphabet,omitempty"`
}

func (s recSpec) residues() []byte {
	al := s.Alphabet
	if al == "" {
		al = "acgt"
	}
	r := core.NewRNG(s.SeqSeed)
	p := make([]byte, s.SeqLen)
	for i := range p {
		p[i] = al[r.Intn(len(al))]
	}
	return p
}

func (s recSpec) build() seqio.GenBank {
	f := seqio.GenBankFields{
		LocusName:  s.Locus,
		Molecule:   gts.Molecule(s.Molecule),
		Topology:   gts.Linear,
		Division:   s.Division,
		Date:       seqio.Date{Year: s.Date[0], Month: time.Month(s.Date[1]), Day: s.Date[2]},
		Definition: s.Definition,
		Accession:  s.Accession,
		Version:    s.Version,
		Keywords:   s.Keywords,
		Source:     seqio.Organism{Species: s.Species, Name: s.Organism, Taxon: s.Taxon},
		Comments:   s.Comments,
	}
	if s.Circular {
		f.Topology = gts.Circular
	}
	for _, p := range s.DBLink {
		f.DBLink = append(f.DBLink, seqio.Pair{Key: p[0], Value: p[1]})
	}
	for _, r := range s.Refs {
		ref := seqio.Reference{Number: r.Number, Info: r.Info, Authors: r.Authors, Group: r.Group, Title: r.Title, Journal: r.Journal, Comment: r.Remark}
		if r.Pubmed != "" {
			ref.Xref = map[string]string{"PUBMED": r.Pubmed}
		}
		f.References = append(f.References, ref)
	}
	for _, e := range s.Extra {
		f.Extra = append(f.Extra, seqio.GenBankExtraField(e[0], e[1]))
	}
	if s.Contig != nil {
		f.Contig = seqio.Contig{Accession: s.Contig[0], Region: gts.Segment{s.ContigHead, s.ContigTail}}
	}
	var table gts.FeatureSlice
	for _, ft := range s.Features {
		table = append(table, ft.build())
	}
	return seqio.GenBank{Fields: f, Table: table, Origin: seqio.NewOrigin(s.residues())}
}

var daysIn = []int{31, 28, 31, 30, 31, 30, 31, 31, 30, 31, 30, 31}

func leap(y int) bool { return y%400 == 0 || (y%100 != 0 && y%4 == 0) }

func genDate(r *core.RNG) [3]int {
	y := []int{1, 999, 1980, 1999, 2000, 2004, 2018, 2024, 2100, 9999}[r.Intn(10)]
	if r.Chance(1, 2) {
		y = r.Range(1970, 2030)
	}
	m := r.Range(1, 12)
	d := daysIn[m-1]
	if m == 2 && leap(y) {
		d = 29
	}
	day := r.Range(1, d)
	if r.Chance(1, 3) {
		day = d
	}
	return [3]int{y, m, day}
}

var seqLens = []int{0, 1, 9, 10, 11, 59, 60, 61, 69, 70, 71, 119, 120, 121, 600}

func genRec(r *core.RNG, idx int) recSpec {
	s := recSpec{
		Locus:    []string{"SIM0001", "pX", "NC_123456", "A", "LONGLOCUSNAME_1234567"}[r.Intn(5)],
		Molecule: []string{"DNA", "DNA", "RNA", "ss-DNA", "ds-DNA", "AA"}[r.Intn(6)],
		Circular: r.Chance(1, 3),
		Division: []string{"", "BCT", "SYN", "PHG", "CON", "UNA"}[r.Intn(6)],
		Date:     genDate(r),
	}
	s.Locus = fmt.Sprintf("%s%d", s.Locus, idx)
	switch r.Intn(5) {
	case 0:
		s.Definition = ""
	case 1:
		s.Definition = wrapAt(genText(r, 10, 30), 67)
	default:
		s.Definition = genText(r, 1, 8)
	}
	if r.Chance(3, 4) {
		s.Accession = fmt.Sprintf("SIM%05d", r.Intn(100000))
		s.Version = s.Accession + "." + fmt.Sprint(r.Range(1, 9))
		if r.Chance(1, 8) {
			// secondary accessions, as many as need a second line
			for i, n := 0, r.Range(8, 14); i < n; i++ {
				if i == 6 {
					s.Accession += "\n"
				} else {
					s.Accession += " "
				}
				s.Accession += fmt.Sprintf("SIM%05d", r.Intn(100000))
			}
		}
	}
	for i := r.Pick([]int{3, 2, 2, 1}); i > 0; i-- {
		s.DBLink = append(s.DBLink, [2]string{[]string{"BioProject", "BioSample", "Assembly", "Sequence Read Archive"}[len(s.DBLink)%4], fmt.Sprintf("PRJ%d", r.Intn(99999))})
	}
	if len(s.DBLink) > 0 && r.Chance(1, 8) {
		// the same database twice
		s.DBLink = append(s.DBLink, [2]string{s.DBLink[0][0], fmt.Sprintf("PRJ%d", r.Intn(99999))})
	}
	for i := r.Pick([]int{3, 2, 2, 1, 1}); i > 0; i-- {
		s.Keywords = append(s.Keywords, []string{"RefSeq", "complete genome", "simulated", "plasmid", "phage", "whole genome shotgun sequencing project", "Streptomyces sp.", "cf. spp."}[r.Intn(8)])
	}
	if r.Chance(1, 12) {
		for i := 0; i < 8; i++ { // long enough to wrap
			k := genText(r, 1, 3)
			if j := strings.IndexByte(k, ' '); j > 0 && r.Chance(1, 3) {
				// a run of blanks inside an entry: where the line is
				// wrapped at it, one blank ends the line and one is the line break
				k = k[:j] + " " + k[j:]
			}
			s.Keywords = append(s.Keywords, k)
		}
	}
	if r.Chance(3, 4) {
		s.Species = genText(r, 1, 4)
		s.Organism = genText(r, 1, 4)
		if r.Chance(1, 10) {
			// names longer than the 67 columns a line of the field holds
			s.Organism = "Candidatus " + genText(r, 9, 14)
			if r.Chance(1, 2) {
				s.Species = s.Organism + " (" + genText(r, 1, 2) + ")"
			}
		}
		for i := r.Pick([]int{2, 2, 2, 2}); i > 0; i-- {
			s.Taxon = append(s.Taxon, []string{"Viruses", "Bacteria", "Proteobacteria", "Microviridae", "Bullavirinae", "Sinsheimervirus", "unclassified sequences", "Bacillus sp.", "environmental samples"}[r.Intn(9)])
		}
		if r.Chance(1, 10) {
			for i := 0; i < 9; i++ {
				s.Taxon = append(s.Taxon, []string{"Gammaproteobacteria", "Gammaproteobacteria", "unclassified  sequences", "cf.  Bacillus", "group II  introns", "Enterobacterales"}[r.Intn(6)])
			}
		}
	}
	for i, n := 0, r.Pick([]int{3, 3, 2, 1}); i < n; i++ {
		ref := refSpec{Number: i + 1}
		if r.Chance(1, 10) {
			ref.Number = []int{10, 99, 100, 999}[r.Intn(4)] + i
			if ref.Number > 999 {
				ref.Number = 999
			}
		}
		if r.Chance(3, 4) {
			ref.Info = fmt.Sprintf("(bases 1 to %d)", r.Range(1, 5000))
		}
		if r.Chance(3, 4) {
			ref.Authors = wrapAt("Sanger,F., Coulson,A.R., Friedmann,T., Air,G.M., Barrell,B.G., Brown,N.L., Fiddes,J.C., Hutchison,C.A. III and Smith,M.", r.Range(30, 67))
		}
		if r.Chance(1, 4) {
			ref.Group = "NCBI Genome Project"
		}
		if r.Chance(3, 4) {
			ref.Title = wrapAt(genText(r, 2, 14), 67)
		}
		if r.Chance(3, 4) {
			ref.Journal = genText(r, 2, 6)
		}
		if r.Chance(1, 2) {
			ref.Pubmed = fmt.Sprint(r.Range(1000, 99999999))
			if r.Chance(1, 12) {
				ref.Pubmed += "\n" + fmt.Sprint(r.Range(1000, 99999999))
			}
		}
		if r.Chance(1, 4) {
			ref.Remark = genText(r, 2, 8)
		}
		s.Refs = append(s.Refs, ref)
	}
	for i := r.Pick([]int{4, 2, 1}); i > 0; i-- {
		s.Comments = append(s.Comments, wrapAt(genText(r, 3, 25), 67))
	}
	for i := r.Pick([]int{6, 1, 1}); i > 0; i-- {
		s.Extra = append(s.Extra, [2]string{[]string{"PROJECT", "SEGMENT", "BASE", "DBSOURCE"}[r.Intn(4)], genText(r, 1, 5)})
	}
	s.SeqLen = seqLens[r.Intn(len(seqLens))]
	if r.Chance(1, 3) {
		s.SeqLen = r.Range(0, 400)
	}
	s.SeqSeed = r.U64()
	if r.Chance(1, 25) {
		s.Alphabet = "acgt \t" // what a FASTA file with blanks at its line ends hands to an insert
	} else if r.Chance(1, 12) {
		s.Alphabet = "acgt-n" // alignment gaps
	} else if r.Chance(1, 10) {
		s.Alphabet = "acgtnrykm"
	} else if r.Chance(1, 15) {
		s.Alphabet = "ACGT"
	} else if s.Molecule == "AA" {
		s.Alphabet = "acdefghiklmnpqrstvwy*-"
	}
	switch r.Intn(8) {
	case 0: // CONTIG only, no ORIGIN
		s.Contig = &[3]string{fmt.Sprintf("SIM%05d.1", r.Intn(99999)), "", ""}
		s.ContigHead, s.ContigTail = 0, r.Range(1, 5000000)
		s.SeqLen = 0
	case 1: // CONTIG and ORIGIN
		if s.SeqLen > 0 {
			s.Contig = &[3]string{fmt.Sprintf("SIM%05d.1", r.Intn(99999)), "", ""}
			s.ContigHead, s.ContigTail = 0, s.SeqLen
		}
	}
	n := s.SeqLen
	if n == 0 && s.Contig != nil {
		n = s.ContigTail
	}
	nf := r.Pick([]int{1, 3, 3, 2, 1})
	for i := 0; i < nf; i++ {
		s.Features = append(s.Features, genFeature(r, n))
	}
	return s
}
