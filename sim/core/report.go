package core

import (
	"encoding/json"
	"fmt"
	"os"
	"path/filepath"
	"strings"
	"time"
)

// Current is the concrete scenario being executed right now; the watchdog
// attaches it to a hang report. Engines set it before every execution.
var Current interface{}

// CurrentClass/CurrentSig describe how a hang of the current scenario is
// classified.
var CurrentSig string

// LoadFindings reads /verif/known_findings.json. A missing file is an empty
// list. The file is never written by a check.
func LoadFindings() ([]Finding, error) {
	b, err := os.ReadFile(filepath.Join(Root(), "known_findings.json"))
	if os.IsNotExist(err) {
		return nil, nil
	}
	if err != nil {
		return nil, err
	}
	var doc struct {
		Findings []Finding `json:"findings"`
	}
	if err := json.Unmarshal(b, &doc); err != nil {
		return nil, err
	}
	return doc.Findings, nil
}

// MatchFinding returns the index of the known (not fixed) finding that lists
// exactly this violation, or -1. A signature ending in '*' matches by prefix.
func MatchFinding(fs []Finding, prop, class, sig string) int {
	for i, f := range fs {
		if f.Status != "known" || f.Property != prop || f.Class != class {
			continue
		}
		if f.Signature == sig {
			return i
		}
		if strings.HasSuffix(f.Signature, "*") && strings.HasPrefix(sig, strings.TrimSuffix(f.Signature, "*")) {
			return i
		}
	}
	return -1
}

// replayTimed runs a replay under the watchdog. A replay that does not come
// back is reported as a hang of the given signature.
func replayTimed(pe PropEngine, sc json.RawMessage, limit time.Duration) ([]Violation, string, error) {
	type res struct {
		v   []Violation
		d   string
		err error
	}
	ch := make(chan res, 1)
	go func() {
		v, d, err := pe.Replay(sc)
		ch <- res{v, d, err}
	}()
	select {
	case r := <-ch:
		return r.v, r.d, r.err
	case <-time.After(limit):
		return []Violation{{Class: "hang", Signature: "watchdog", Detail: fmt.Sprintf("no result within %v", limit), Scenario: sc}}, "", nil
	}
}

// Minimise shrinks a violation's scenario while the same class and signature
// keep reproducing. It returns the smallest reproducer found and the number of
// executions spent.
func Minimise(pe PropEngine, v Violation, maxExec int, maxWall time.Duration) (Violation, int) {
	t0 := time.Now()
	execs := 0
	cur := v
	limit := HangLimit
	if v.Class == "hang" {
		limit = 5 * time.Second
	}
	// The scenario must reproduce at all; otherwise keep it as found.
	vs, _, err := replayTimed(pe, cur.Scenario, HangLimit)
	execs++
	if err != nil || find(vs, v.Key()) == nil {
		return v, execs
	}
	cur = *find(vs, v.Key())
	// Greedy passes over the engine's candidates. After a candidate is
	// accepted the list is rebuilt for the smaller scenario and the pass goes
	// on at the same position (what was tried before it failed a moment ago
	// and is tried again in the next pass), so a scenario with n removable
	// parts costs about n executions per pass, not n*n.
	for progress := true; progress; {
		progress = false
		cands := pe.Candidates(cur.Scenario)
		for i := 0; i < len(cands); i++ {
			if execs >= maxExec || time.Since(t0) > maxWall {
				return cur, execs
			}
			vs, _, err := replayTimed(pe, cands[i], limit)
			execs++
			if err != nil {
				continue
			}
			if hit := find(vs, v.Key()); hit != nil {
				cur = *hit
				progress = true
				cands = pe.Candidates(cur.Scenario)
				i--
			}
		}
	}
	return cur, execs
}

func find(vs []Violation, key string) *Violation {
	for i := range vs {
		if vs[i].Key() == key {
			return &vs[i]
		}
	}
	return nil
}

// ReplayFile is the on-disk form of a reported violation.
type ReplayFile struct {
	Schema         int             `json:"schema"`
	Property       string          `json:"property"`
	Tier           string          `json:"tier"`
	BaseSeed       uint64          `json:"base_seed"`
	Class          string          `json:"class"`
	Signature      string          `json:"signature"`
	Detail         string          `json:"detail"`
	Occurrences    int             `json:"occurrences_in_batch"`
	Minimised      bool            `json:"minimised"`
	MinimiserExecs int             `json:"minimiser_executions"`
	EventLogSHA256 string          `json:"event_log_sha256"`
	Scenario       json.RawMessage `json:"scenario"`
}

func sanitize(s string) string {
	var b strings.Builder
	for _, c := range s {
		if (c >= 'a' && c <= 'z') || (c >= 'A' && c <= 'Z') || (c >= '0' && c <= '9') || c == '-' || c == '_' || c == '.' {
			b.WriteRune(c)
		} else {
			b.WriteByte('_')
		}
	}
	r := b.String()
	if len(r) > 80 {
		r = r[:80]
	}
	return r
}

// WriteReplay stores a minimised violation under /verif/replays/<prop>/.
func WriteReplay(prop, tier string, base uint64, v Violation, execs, occ int) (string, error) {
	return WriteReplayDigest(prop, tier, base, v, execs, occ, "")
}

// WriteReplayDigest is WriteReplay with the event-log digest of the minimised
// scenario's execution, which a later replay must reproduce.
func WriteReplayDigest(prop, tier string, base uint64, v Violation, execs, occ int, digest string) (string, error) {
	dir := filepath.Join(Root(), "replays", prop)
	if err := os.MkdirAll(dir, 0755); err != nil {
		return "", err
	}
	rf := ReplayFile{Schema: 1, Property: prop, Tier: tier, BaseSeed: base, Class: v.Class, Signature: v.Signature,
		Detail: v.Detail, Occurrences: occ, Minimised: execs > 1, MinimiserExecs: execs, EventLogSHA256: digest, Scenario: v.Scenario}
	b, err := json.MarshalIndent(rf, "", " ")
	if err != nil {
		return "", err
	}
	path := filepath.Join(dir, fmt.Sprintf("%d-%s-%s.json", base, sanitize(v.Class), sanitize(v.Signature)))
	return path, os.WriteFile(path, append(b, '\n'), 0644)
}

func replayFile(props map[string]PropEngine, path string) int {
	b, err := os.ReadFile(path)
	if err != nil {
		fatalf("%v", err)
	}
	var rf ReplayFile
	if err := json.Unmarshal(b, &rf); err != nil {
		fatalf("%s: %v", path, err)
	}
	pe, ok := props[rf.Property]
	if !ok {
		fatalf("this engine does not serve property %s", rf.Property)
	}
	vs, digest, err := replayTimed(pe, rf.Scenario, HangLimit)
	if err != nil {
		fatalf("replay: %v", err)
	}
	fmt.Printf("replay %s: property=%s class=%s signature=%s event_log_sha256=%s\n", path, rf.Property, rf.Class, rf.Signature, digest)
	want := rf.Class + "|" + rf.Signature
	if hit := find(vs, want); hit != nil {
		fmt.Printf("reproduced: %s\n", trunc(hit.Detail, 2000))
		if rf.EventLogSHA256 != "" && digest != "" {
			if rf.EventLogSHA256 == digest {
				fmt.Println("event log digest matches the recorded execution: the replay is exact")
			} else {
				fmt.Println("note: same violation, but the event log digest differs from the recorded execution (the tree or the harness changed since it was recorded)")
			}
		}
		fmt.Printf("VIOLATION property=%s replay=%s\n", rf.Property, path)
		return ExitViolation
	}
	for _, v := range vs {
		fmt.Printf("other violation: class=%s signature=%s %s\n", v.Class, v.Signature, trunc(v.Detail, 300))
	}
	fmt.Printf("not reproduced: the recorded violation %s does not occur on this tree\n", want)
	return ExitOK
}
