package core

import "encoding/json"

// Violation is one oracle failure with the complete concrete scenario that
// reproduces it.
type Violation struct {
	Class     string          `json:"class"`
	Signature string          `json:"signature"`
	Detail    string          `json:"detail"`
	Scenario  json.RawMessage `json:"scenario"`
}

// Key is the unit of "same violation" for minimisation and known findings.
func (v Violation) Key() string { return v.Class + "|" + v.Signature }

// Result is what one simulated run (one seed) reports.
type Result struct {
	Index       int               `json:"index"`
	Seed        uint64            `json:"seed"`
	Evaluations int               `json:"evaluations"`
	SimOps      int               `json:"sim_ops"`
	Keys        []string          `json:"keys,omitempty"`     // distinct-state keys reached (non-trivial cases)
	Probes      map[string]int    `json:"probes,omitempty"`   // rare-branch counters
	Faults      map[string]int    `json:"faults,omitempty"`   // faults that actually fired, by kind
	Extended    map[string]int    `json:"extended,omitempty"` // observations outside the verdict
	Real        int               `json:"real_ops,omitempty"`
	Digest      string            `json:"digest"`
	Violations  []Violation       `json:"violations,omitempty"`
	Sample      json.RawMessage   `json:"sample,omitempty"`
	Harness     string            `json:"harness_error,omitempty"` // exit 2 material, never a violation
	Notes       map[string]string `json:"notes,omitempty"`
}

// Meta describes a property check for the evidence file.
type Meta struct {
	Property    string
	Level       string // exploration | fault_enumeration
	Rule        string
	StateRule   string
	Assumptions []string
	Real        []string
	Stub        []string
	NotDecided  []string
	// HangIsViolation: a run that does not come back within the watchdog is a
	// violation of this property (totality); otherwise it is harness trouble.
	HangIsViolation bool
	// NonVacuous names probes that must be non-zero for the batch to have
	// exercised the interesting side of its oracle (an intact entry that opens,
	// a warm hit that is served, ...). If one is zero the property still held
	// on everything explored, but the run says VACUOUS loudly and in evidence.
	NonVacuous []string
}

// PropEngine is what an engine implements per property.
type PropEngine interface {
	Meta() Meta
	// Runs is the number of seeds of a tier.
	Runs(tier string) int
	// RunSeed executes simulated run idx of the batch.
	RunSeed(tier string, seed uint64, idx int) *Result
	// Replay executes one concrete scenario and returns what it violates.
	Replay(sc json.RawMessage) ([]Violation, string, error)
	// Candidates proposes simpler scenarios for the minimiser.
	Candidates(sc json.RawMessage) []json.RawMessage
}

// Finding is one entry of /verif/known_findings.json.
type Finding struct {
	Property  string `json:"property"`
	Class     string `json:"class"`
	Signature string `json:"signature"`
	What      string `json:"what"`
	Status    string `json:"status"` // known | fixed
	Commit    string `json:"commit,omitempty"`
}
