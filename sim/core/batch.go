package core

import (
	"bufio"
	"crypto/sha256"
	"encoding/hex"
	"encoding/json"
	"fmt"
	"os"
	"os/exec"
	"path/filepath"
	"runtime"
	"sort"
	"strconv"
	"strings"
	"sync"
	"sync/atomic"
	"time"
)

// Exit statuses of every front door.
const (
	ExitOK        = 0
	ExitViolation = 1
	ExitHarness   = 2
	exitHang      = 3
)

// HangLimit is the wall-clock watchdog for a single simulated run; the work
// it guards takes milliseconds.
var HangLimit = 60 * time.Second

// Root is /verif (evidence, replays, known findings live under it).
func Root() string {
	if r := os.Getenv("VERIF_ROOT"); r != "" {
		return r
	}
	return "/verif"
}

// BaseSeed is VERIF_SEED (default 1).
func BaseSeed() uint64 {
	if s := os.Getenv("VERIF_SEED"); s != "" {
		if v, err := strconv.ParseUint(s, 10, 64); err == nil {
			return v
		}
		if v, err := strconv.ParseInt(s, 10, 64); err == nil {
			return uint64(v)
		}
	}
	return 1
}

func workers() int {
	if s := os.Getenv("VERIF_WORKERS"); s != "" {
		if v, err := strconv.Atoi(s); err == nil && v > 0 {
			return v
		}
	}
	n := runtime.NumCPU()
	if n > 16 {
		n = 16
	}
	if n < 1 {
		n = 1
	}
	return n
}

// Main is the entry point shared by both engine binaries.
func Main(engine string, props map[string]PropEngine) {
	if len(os.Args) < 2 {
		fmt.Fprintf(errOut, "usage: %s batch <prop> <tier> | worker ... | replay <file> | one <prop> <tier> <idx>\n", engine)
		os.Exit(ExitHarness)
	}
	switch os.Args[1] {
	case "batch":
		if len(os.Args) != 4 {
			fatalf("usage: batch <prop> <tier>")
		}
		pe, ok := props[os.Args[2]]
		if !ok {
			fatalf("engine %s does not serve property %s", engine, os.Args[2])
		}
		os.Exit(batch(engine, os.Args[2], os.Args[3], pe))
	case "worker":
		if len(os.Args) != 9 {
			fatalf("usage: worker <prop> <tier> <base> <widx> <nw> <total> <start>")
		}
		pe, ok := props[os.Args[2]]
		if !ok {
			fatalf("no such property")
		}
		base, _ := strconv.ParseUint(os.Args[4], 10, 64)
		widx, _ := strconv.Atoi(os.Args[5])
		nw, _ := strconv.Atoi(os.Args[6])
		total, _ := strconv.Atoi(os.Args[7])
		start, _ := strconv.Atoi(os.Args[8])
		worker(os.Args[2], os.Args[3], pe, base, widx, nw, total, start)
	case "replay":
		if len(os.Args) != 3 {
			fatalf("usage: replay <file>")
		}
		os.Exit(replayFile(props, os.Args[2]))
	case "one":
		if len(os.Args) != 5 {
			fatalf("usage: one <prop> <tier> <idx>")
		}
		pe := props[os.Args[2]]
		idx, _ := strconv.Atoi(os.Args[4])
		r := pe.RunSeed(os.Args[3], SeedOf(BaseSeed(), os.Args[2], idx), idx)
		b, _ := json.MarshalIndent(r, "", " ")
		fmt.Println(string(b))
	default:
		if f, ok := Extras[os.Args[1]]; ok {
			os.Exit(f(os.Args[2:]))
		}
		fatalf("unknown subcommand %s", os.Args[1])
	}
}

func fatalf(format string, a ...interface{}) {
	fmt.Fprintf(errOut, "HARNESS-ERROR: "+format+"\n", a...)
	os.Exit(ExitHarness)
}

// SeedOf derives the seed of run idx of a property from the base seed.
func SeedOf(base uint64, prop string, idx int) uint64 {
	return Mix(MixS(base, prop), uint64(idx))
}

// worker executes runs widx, widx+nw, ... and prints one JSON line per run.
func worker(prop, tier string, pe PropEngine, base uint64, widx, nw, total, start int) {
	out := bufio.NewWriterSize(os.Stdout, 1<<16)
	var mu sync.Mutex
	cur := -1
	go func() {
		for {
			time.Sleep(500 * time.Millisecond)
			mu.Lock()
			c := cur
			mu.Unlock()
			st := time.Unix(0, atomic.LoadInt64(&lastTick))
			if c >= 0 && time.Since(st) > HangLimit {
				mu.Lock()
				r := &Result{Index: c, Seed: SeedOf(base, prop, c), Notes: map[string]string{"hang": "watchdog"}, Evaluations: 1}
				if Current != nil {
					if sb, err := json.Marshal(Current); err == nil {
						r.Violations = []Violation{{Class: "hang", Signature: CurrentSig,
							Detail: fmt.Sprintf("no result within the %v watchdog", HangLimit), Scenario: sb}}
					}
				}
				b, _ := json.Marshal(r)
				out.Write(b)
				out.WriteByte('\n')
				out.Flush()
				os.Exit(exitHang)
			}
		}
	}()
	for idx := widx; idx < total; idx += nw {
		if idx < start {
			continue
		}
		mu.Lock()
		cur = idx
		Tick()
		mu.Unlock()
		r := pe.RunSeed(tier, SeedOf(base, prop, idx), idx)
		mu.Lock()
		cur = -1
		r.Index = idx
		b, err := json.Marshal(r)
		if err != nil {
			fmt.Fprintf(errOut, "worker: marshal: %v\n", err)
			os.Exit(ExitHarness)
		}
		out.Write(b)
		out.WriteByte('\n')
		mu.Unlock()
	}
	mu.Lock()
	out.Flush()
	os.Exit(0)
}

type hangInfo struct {
	idx int
}

func batch(engine, prop, tier string, pe PropEngine) int {
	t0 := time.Now()
	base := BaseSeed()
	total := pe.Runs(tier)
	if s := os.Getenv("VERIF_RUNS"); s != "" {
		if v, err := strconv.Atoi(s); err == nil && v > 0 {
			total = v
		}
	}
	nw := workers()
	if nw > total {
		nw = total
	}
	fmt.Printf("[%s] property=%s tier=%s seed=%d runs=%d workers=%d\n", engine, prop, tier, base, total, nw)
	self, err := os.Executable()
	if err != nil {
		fatalf("executable: %v", err)
	}
	results := make([]*Result, total)
	var mu sync.Mutex
	var wg sync.WaitGroup
	harness := []string{}
	hangs := []int{}
	// A batch in which the code under test keeps hanging is cut short after a
	// few watchdog reports: each costs a full watchdog period.
	const maxHangs = 3
	aborted := false
	procs := make([]*exec.Cmd, nw)
	for w := 0; w < nw; w++ {
		wg.Add(1)
		go func(w int) {
			defer wg.Done()
			start := 0
			for attempt := 0; attempt < 50; attempt++ {
				cmd := exec.Command(self, "worker", prop, tier, fmt.Sprint(base), fmt.Sprint(w), fmt.Sprint(nw), fmt.Sprint(total), fmt.Sprint(start))
				gmp := "2"
				if v := os.Getenv("VERIF_GOMAXPROCS"); v != "" {
					gmp = v
				}
				cmd.Env = append(os.Environ(), "GOMAXPROCS="+gmp)
				cmd.Stderr = errOut
				pipe, err := cmd.StdoutPipe()
				if err != nil {
					mu.Lock()
					harness = append(harness, err.Error())
					mu.Unlock()
					return
				}
				if err := cmd.Start(); err != nil {
					mu.Lock()
					harness = append(harness, err.Error())
					mu.Unlock()
					return
				}
				mu.Lock()
				procs[w] = cmd
				ab := aborted
				mu.Unlock()
				if ab {
					cmd.Process.Kill()
				}
				sc := bufio.NewScanner(pipe)
				sc.Buffer(make([]byte, 1<<20), 1<<30)
				last := -1
				for sc.Scan() {
					mu.Lock()
					if aborted {
						for _, c := range procs {
							if c != nil && c.Process != nil {
								c.Process.Kill()
							}
						}
					}
					mu.Unlock()
					r := &Result{}
					if err := json.Unmarshal(sc.Bytes(), r); err != nil {
						mu.Lock()
						// a worker killed because the batch was cut short may
						// have been in the middle of a line
						if !aborted {
							harness = append(harness, "worker output: "+err.Error())
						}
						mu.Unlock()
						continue
					}
					mu.Lock()
					if r.Index >= 0 && r.Index < total {
						results[r.Index] = r
						last = r.Index
					}
					mu.Unlock()
				}
				err = cmd.Wait()
				if err == nil {
					return
				}
				code := -1
				if ee, ok := err.(*exec.ExitError); ok {
					code = ee.ExitCode()
				}
				if code == exitHang && last >= 0 {
					mu.Lock()
					hangs = append(hangs, last)
					stop := len(hangs) >= maxHangs
					if stop {
						aborted = true
					}
					mu.Unlock()
					if stop {
						return
					}
					start = last + 1
					continue
				}
				mu.Lock()
				ab2 := aborted
				mu.Unlock()
				if ab2 {
					return // killed because the batch was cut short
				}
				mu.Lock()
				harness = append(harness, fmt.Sprintf("worker %d died (exit %d) after run %d", w, code, last))
				mu.Unlock()
				return
			}
		}(w)
	}
	wg.Wait()
	if aborted {
		fmt.Printf("note: %d runs exceeded the watchdog; the batch was cut short\n", len(hangs))
		kept := results[:0]
		for _, r := range results {
			if r != nil {
				kept = append(kept, r)
			}
		}
		results = kept
	}
	for i, r := range results {
		if r == nil {
			harness = append(harness, fmt.Sprintf("run %d produced no result", i))
			if len(harness) > 5 {
				break
			}
		} else if r.Harness != "" {
			harness = append(harness, fmt.Sprintf("run %d: %s", i, r.Harness))
		}
	}
	if len(harness) > 0 {
		for _, h := range harness {
			fmt.Printf("HARNESS-ERROR: %s\n", h)
		}
		return ExitHarness
	}

	// Merge in run order so that nothing depends on the worker count.
	agg := newAggregate()
	groups := map[string]*Violation{}
	groupCount := map[string]int{}
	var order []string
	for _, r := range results {
		agg.add(r)
		for i := range r.Violations {
			v := r.Violations[i]
			k := v.Key()
			if _, ok := groups[k]; !ok {
				groups[k] = &r.Violations[i]
				order = append(order, k)
			}
			groupCount[k]++
		}
	}
	sort.Ints(hangs)
	for _, h := range hangs {
		fmt.Printf("note: run %d exceeded the %v watchdog\n", h, HangLimit)
	}

	if !pe.Meta().HangIsViolation {
		if v, ok := groups["hang|"+hangSig(groups)]; ok || len(hangs) > 0 {
			// this property says nothing about termination: a stuck run is
			// trouble to look into, not a verdict
			path := ""
			if ok {
				path, _ = WriteReplay(prop, tier, base, *v, 0, len(hangs))
			}
			fmt.Printf("HARNESS-ERROR: %d simulated runs did not come back within the %v watchdog; scenario kept at %s\n", len(hangs), HangLimit, path)
			return ExitHarness
		}
	}
	findings, err := LoadFindings()
	if err != nil {
		fatalf("known_findings.json: %v", err)
	}
	observed := map[int]bool{}
	unknown := 0
	reported := 0
	var vlines []string
	minStart := time.Now()
	for _, k := range order {
		v := groups[k]
		if fi := MatchFinding(findings, prop, v.Class, v.Signature); fi >= 0 {
			observed[fi] = true
			agg.known[k] = groupCount[k]
			continue
		}
		unknown++
		if reported >= 12 {
			continue
		}
		reported++
		// per class at most 60 s, all classes of a batch together at most 5 min
		budget := 60 * time.Second
		if left := 5*time.Minute - time.Since(minStart); left < budget {
			budget = left
		}
		min, steps := *v, 0
		if budget > time.Second {
			min, steps = Minimise(pe, *v, 1500, budget)
		}
		digest := ""
		if min.Class != "hang" {
			if _, d, err := replayTimed(pe, min.Scenario, HangLimit); err == nil {
				digest = d
			}
		}
		path, err := WriteReplayDigest(prop, tier, base, min, steps, groupCount[k], digest)
		if err != nil {
			fatalf("writing replay: %v", err)
		}
		fmt.Printf("violation class=%s signature=%s occurrences=%d detail=%s\n", v.Class, v.Signature, groupCount[k], trunc(min.Detail, 300))
		vlines = append(vlines, fmt.Sprintf("VIOLATION property=%s replay=%s", prop, path))
	}
	for i, f := range findings {
		if f.Property == prop && f.Status == "known" {
			fmt.Printf("KNOWN-FINDING: property=%s class=%s signature=%s observed=%v %s\n", prop, f.Class, f.Signature, observed[i], f.What)
		}
	}
	for _, p := range pe.Meta().NonVacuous {
		if agg.probes[p] == 0 {
			agg.vacuous = append(agg.vacuous, p)
			fmt.Printf("VACUOUS: property=%s probe %q stayed at zero: the oracle's interesting side was never exercised in this batch\n", prop, p)
		}
	}
	wall := time.Since(t0).Seconds()
	if err := agg.writeEvidence(pe.Meta(), prop, tier, base, total, nw, wall, unknown); err != nil {
		fatalf("writing evidence: %v", err)
	}
	fmt.Printf("[%s] %s %s: runs=%d evaluations=%d distinct=%d sim_ops=%d faults=%d wall=%.1fs unknown_violation_classes=%d\n",
		engine, prop, tier, total, agg.evals, len(agg.keys), agg.simOps, agg.faultTotal(), wall, unknown)
	for _, l := range vlines {
		fmt.Println(l)
	}
	if unknown > 0 {
		return ExitViolation
	}
	return ExitOK
}

func trunc(s string, n int) string {
	s = strings.ReplaceAll(s, "\n", "\\n")
	if len(s) > n {
		return s[:n] + "…"
	}
	return s
}

type aggregate struct {
	evals    int
	simOps   int
	keys     map[string]int
	probes   map[string]int
	faults   map[string]int
	extended map[string]int
	known    map[string]int
	samples  []json.RawMessage
	digest   []byte
	runs     int
	vacuous  []string
}

func newAggregate() *aggregate {
	return &aggregate{keys: map[string]int{}, probes: map[string]int{}, faults: map[string]int{}, extended: map[string]int{}, known: map[string]int{}}
}

func (a *aggregate) add(r *Result) {
	a.runs++
	a.evals += r.Evaluations
	a.simOps += r.SimOps
	for _, k := range r.Keys {
		a.keys[k]++
	}
	for k, v := range r.Probes {
		a.probes[k] += v
	}
	for k, v := range r.Faults {
		a.faults[k] += v
	}
	for k, v := range r.Extended {
		a.extended[k] += v
	}
	if len(r.Sample) > 0 && len(a.samples) < 3 {
		a.samples = append(a.samples, r.Sample)
	}
	h := sha256.New()
	h.Write(a.digest)
	h.Write([]byte(r.Digest))
	a.digest = h.Sum(nil)
}

func (a *aggregate) faultTotal() int {
	t := 0
	for _, v := range a.faults {
		t += v
	}
	return t
}

func (a *aggregate) writeEvidence(m Meta, prop, tier string, base uint64, total, nw int, wall float64, unknown int) error {
	keys := make([]string, 0, len(a.keys))
	for k := range a.keys {
		keys = append(keys, k)
	}
	sort.Strings(keys)
	sampleKeys := keys
	if len(sampleKeys) > 40 {
		sampleKeys = sampleKeys[:40]
	}
	samples := make([]interface{}, 0, len(a.samples))
	for _, s := range a.samples {
		var v interface{}
		json.Unmarshal(s, &v)
		samples = append(samples, v)
	}
	if len(samples) == 0 {
		samples = append(samples, "no sample recorded")
	}
	perHour := 0.0
	if wall > 0 {
		perHour = float64(total) / wall * 3600
	}
	zeroProbes := []string{}
	for k, v := range a.probes {
		if v == 0 {
			zeroProbes = append(zeroProbes, k)
		}
	}
	sort.Strings(zeroProbes)
	ev := map[string]interface{}{
		"property_id": prop,
		"tier":        tier,
		"seed":        int64(base & 0x7fffffffffffffff),
		"level":       m.Level,
		"wall_s":      wall,
		"violations":  unknown,
		"assumptions": m.Assumptions,
		"coverage": map[string]interface{}{
			"evaluations":             a.evals,
			"distinct_nontrivial":     len(a.keys),
			"rule":                    m.Rule,
			"distinct_state_measure":  m.StateRule,
			"samples":                 samples,
			"simulated_runs":          total,
			"runs_per_hour":           perHour,
			"seeds_per_hour":          perHour,
			"workers":                 nw,
			"sim_io_ops":              a.simOps,
			"simulated_time":          "n/a — gts has no timers, clocks or deadlines; progress is measured in simulated I/O operations (sim_io_ops)",
			"faults_fired":            a.faults,
			"faults_fired_total":      a.faultTotal(),
			"probes":                  a.probes,
			"probes_at_zero":          zeroProbes,
			"state_keys_sample":       sampleKeys,
			"extended_observations":   a.extended,
			"known_findings_observed": a.known,
			"components":              map[string]interface{}{"real": m.Real, "stub": m.Stub},
			"not_decided":             m.NotDecided,
			"batch_digest":            hex.EncodeToString(a.digest),
			"exhaustive":              false,
		},
	}
	b, err := json.MarshalIndent(ev, "", " ")
	if err != nil {
		return err
	}
	dir := filepath.Join(Root(), "evidence")
	os.MkdirAll(dir, 0755)
	name := prop
	if n := os.Getenv("VERIF_EVIDENCE_NAME"); n != "" {
		name = n // a second engine contributing to the same property writes a side file that the front door merges
	}
	return os.WriteFile(filepath.Join(dir, name+".json"), append(b, '\n'), 0644)
}

// errOut is the harness's own stderr, captured before an engine redirects the
// process-wide os.Stderr away from simulated processes' error text.
var errOut = os.Stderr

// Extras are engine-specific subcommands (self-tests).
var Extras = map[string]func(args []string) int{}

var lastTick int64

// Tick tells the watchdog that the simulated run is making progress. Engines
// call it once per evaluation, so the watchdog bounds a single execution of
// the code under test, not a whole sweep.
func Tick() { atomic.StoreInt64(&lastTick, time.Now().UnixNano()) }

// hangSig finds the signature under which a watchdog report was filed.
func hangSig(groups map[string]*Violation) string {
	for k, v := range groups {
		if v.Class == "hang" {
			return k[len("hang|"):]
		}
	}
	return ""
}
