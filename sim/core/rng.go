// Package core holds what both engines share: the PRNG, the batch runner,
// the minimiser, known-findings handling and the evidence writer.
package core

// RNG is splitmix64. Every choice of a simulated run derives from one value.
// It is deliberately not math/rand so that replay never depends on the Go
// release.
type RNG struct{ s uint64 }

// NewRNG returns a generator seeded with s.
func NewRNG(s uint64) *RNG { return &RNG{s} }

// Mix derives a sub-seed from a base seed and labels.
func Mix(base uint64, labels ...uint64) uint64 {
	r := RNG{base}
	x := r.U64()
	for _, l := range labels {
		r.s ^= l * 0x9e3779b97f4a7c15
		x = r.U64()
	}
	return x
}

// MixS folds a string label into a seed.
func MixS(base uint64, label string) uint64 {
	h := uint64(1469598103934665603)
	for i := 0; i < len(label); i++ {
		h ^= uint64(label[i])
		h *= 1099511628211
	}
	return Mix(base, h)
}

// U64 returns the next 64 random bits.
func (r *RNG) U64() uint64 {
	r.s += 0x9e3779b97f4a7c15
	z := r.s
	z = (z ^ (z >> 30)) * 0xbf58476d1ce4e5b9
	z = (z ^ (z >> 27)) * 0x94d049bb133111eb
	return z ^ (z >> 31)
}

// Intn returns a value in [0,n). n<=0 yields 0.
func (r *RNG) Intn(n int) int {
	if n <= 1 {
		return 0
	}
	return int(r.U64() % uint64(n))
}

// Range returns a value in [lo,hi].
func (r *RNG) Range(lo, hi int) int {
	if hi <= lo {
		return lo
	}
	return lo + r.Intn(hi-lo+1)
}

// Chance is true with probability num/den.
func (r *RNG) Chance(num, den int) bool { return r.Intn(den) < num }

// Float returns a value in [0,1).
func (r *RNG) Float() float64 { return float64(r.U64()>>11) / float64(1<<53) }

// Bytes returns n random bytes.
func (r *RNG) Bytes(n int) []byte {
	p := make([]byte, n)
	for i := 0; i < n; i += 8 {
		v := r.U64()
		for j := 0; j < 8 && i+j < n; j++ {
			p[i+j] = byte(v >> (8 * uint(j)))
		}
	}
	return p
}

// Pick returns a random element index weighted by w.
func (r *RNG) Pick(w []int) int {
	t := 0
	for _, x := range w {
		t += x
	}
	if t <= 0 {
		return 0
	}
	v := r.Intn(t)
	for i, x := range w {
		if v < x {
			return i
		}
		v -= x
	}
	return len(w) - 1
}

// Fork returns an independent generator.
func (r *RNG) Fork() *RNG { return &RNG{r.U64()} }
