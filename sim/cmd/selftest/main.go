// selftest simfs: seeded operation sequences are executed against the
// simulated disk and against the real os in a scratch directory; every result
// (byte counts, data read, error class, sizes, directory listings) and the
// final directory image must agree. Fault-free operations only: this validates
// that the simulator implements os.File semantics, which every E1 verdict
// assumes.
package main

import (
	"bytes"
	"errors"
	"fmt"
	"io"
	"io/fs"
	"os"
	"path/filepath"
	"sort"
	"strconv"
	"strings"
	"syscall"

	"github.com/go-gts/gts/internal/verifsim/core"
	"github.com/go-gts/gts/internal/verifsim/simfilepath"
	"github.com/go-gts/gts/internal/verifsim/simos"
)

func errClass(err error) string {
	if err == nil {
		return "ok"
	}
	switch {
	case err == io.EOF:
		return "EOF"
	case errors.Is(err, fs.ErrNotExist):
		return "ENOENT"
	case errors.Is(err, fs.ErrExist):
		return "EEXIST"
	case errors.Is(err, fs.ErrClosed):
		return "closed"
	case errors.Is(err, syscall.EISDIR):
		return "EISDIR"
	case errors.Is(err, syscall.ENOTDIR):
		return "ENOTDIR"
	case errors.Is(err, syscall.ENOTEMPTY):
		return "ENOTEMPTY"
	case errors.Is(err, syscall.EBADF):
		return "EBADF"
	case errors.Is(err, syscall.EINVAL):
		return "EINVAL"
	case errors.Is(err, fs.ErrPermission):
		return "EACCES"
	}
	return "other:" + err.Error()
}

type realFile = os.File

func main() {
	if len(os.Args) < 3 {
		fmt.Println("usage: selftest simfs <sequences> [seed]")
		os.Exit(2)
	}
	n, _ := strconv.Atoi(os.Args[2])
	seed := uint64(1)
	if len(os.Args) > 3 {
		seed, _ = strconv.ParseUint(os.Args[3], 10, 64)
	}
	ops := 0
	for i := 0; i < n; i++ {
		k, err := one(core.Mix(seed, uint64(i)))
		ops += k
		if err != nil {
			for _, l := range lastLog {
				fmt.Println("   sim:", l)
			}
			fmt.Printf("SELFTEST-FAIL simfs sequence %d (seed %d): %v\n", i, core.Mix(seed, uint64(i)), err)
			os.Exit(2)
		}
	}
	fmt.Printf("selftest simfs: %d sequences, %d operations, simulated disk and real os agree\n", n, ops)
}

var lastLog []string

func one(seed uint64) (int, error) {
	r := core.NewRNG(seed)
	root, err := os.MkdirTemp("", "verif-simfs-")
	if err != nil {
		return 0, err
	}
	defer os.RemoveAll(root)
	os.MkdirAll(root+"/u", 0755)
	os.MkdirAll(root+"/tmp", 0755)
	w := simos.NewWorld(simos.Env{CacheHome: "/home/u/.cache", TmpDir: "/tmp"}, os.Getenv("VERIF_DEBUG") != "")
	defer func() {
		if os.Getenv("VERIF_DEBUG") != "" {
			lastLog = w.Log.Lines
		}
	}()
	w.MkdirAllRaw("/tmp")
	simos.W = w
	w.StartProc(simos.ProcSpec{SinkLimit: -1, Stdin: simos.StdinSpec{Tty: true}})

	names := []string{"/u/a", "/u/b", "/u/d/c", "/u/d", "/u/d/e/f", "/u/a/x", "/tmp/t"}
	var sh []*simos.File
	var rh []*realFile
	nops := r.Range(5, 60)
	for i := 0; i < nops; i++ {
		name := names[r.Intn(len(names))]
		rn := root + name
		opk := r.Intn(14)
		if os.Getenv("VERIF_DEBUG") != "" {
			fmt.Printf("op %d kind %d name %s\n", i, opk, name)
		}
		switch opk {
		case 0, 1:
			flag := []int{os.O_RDONLY, os.O_RDWR | os.O_CREATE | os.O_TRUNC, os.O_WRONLY | os.O_CREATE, os.O_RDWR, os.O_WRONLY | os.O_APPEND | os.O_CREATE, os.O_RDWR | os.O_CREATE | os.O_EXCL}[r.Intn(6)]
			sf, e1 := simos.OpenFile(name, flag, 0644)
			rf, e2 := os.OpenFile(rn, flag, 0644)
			if errClass(e1) != errClass(e2) {
				return i, fmt.Errorf("op %d OpenFile(%s,%#x): sim %v, real %v", i, name, flag, e1, e2)
			}
			if os.Getenv("VERIF_DEBUG") != "" {
				fmt.Printf("   open %s flag %#x -> %v (handle %d)\n", name, flag, e1, len(sh))
			}
			if e1 == nil {
				sh, rh = append(sh, sf), append(rh, rf)
			}
		case 2, 3, 4:
			if len(sh) == 0 {
				continue
			}
			k := r.Intn(len(sh))
			data := r.Bytes(r.Intn(300))
			n1, e1 := sh[k].Write(data)
			n2, e2 := rh[k].Write(data)
			if os.Getenv("VERIF_DEBUG") != "" {
				fmt.Printf("   write %d bytes to handle %d (%s) -> %d %v\n", len(data), k, sh[k].Name(), n1, e1)
			}
			if n1 != n2 || errClass(e1) != errClass(e2) {
				return i, fmt.Errorf("op %d Write(%d bytes) on %s: sim (%d,%v), real (%d,%v)", i, len(data), sh[k].Name(), n1, e1, n2, e2)
			}
		case 5, 6:
			if len(sh) == 0 {
				continue
			}
			k := r.Intn(len(sh))
			sz := r.Intn(400)
			p1, p2 := make([]byte, sz), make([]byte, sz)
			n1, e1 := sh[k].Read(p1)
			n2, e2 := rh[k].Read(p2)
			if n1 != n2 || errClass(e1) != errClass(e2) || !bytes.Equal(p1[:n1], p2[:n2]) {
				return i, fmt.Errorf("op %d Read(%d) on %s: sim (%d,%v), real (%d,%v)", i, sz, sh[k].Name(), n1, e1, n2, e2)
			}
		case 7:
			if len(sh) == 0 {
				continue
			}
			k := r.Intn(len(sh))
			if st, err := rh[k].Stat(); err == nil && st.IsDir() {
				continue // seeking directory handles is not modelled (gts never does it)
			}
			off := int64(r.Range(-10, 500))
			wh := r.Intn(3)
			o1, e1 := sh[k].Seek(off, wh)
			o2, e2 := rh[k].Seek(off, wh)
			if errClass(e1) != errClass(e2) || (e1 == nil && o1 != o2) {
				return i, fmt.Errorf("op %d Seek(%d,%d) on %s: sim (%d,%v), real (%d,%v)", i, off, wh, sh[k].Name(), o1, e1, o2, e2)
			}
		case 8:
			if len(sh) == 0 {
				continue
			}
			k := r.Intn(len(sh))
			e1, e2 := sh[k].Close(), rh[k].Close()
			if errClass(e1) != errClass(e2) {
				return i, fmt.Errorf("op %d Close on %s: sim %v, real %v", i, sh[k].Name(), e1, e2)
			}
			if r.Chance(3, 4) {
				sh, rh = append(sh[:k], sh[k+1:]...), append(rh[:k], rh[k+1:]...)
			}
		case 9:
			e1, e2 := simos.Remove(name), os.Remove(rn)
			if errClass(e1) != errClass(e2) {
				return i, fmt.Errorf("op %d Remove(%s): sim %v, real %v", i, name, e1, e2)
			}
		case 10:
			e1, e2 := simos.MkdirAll(name, 0755), os.MkdirAll(rn, 0755)
			if errClass(e1) != errClass(e2) {
				return i, fmt.Errorf("op %d MkdirAll(%s): sim %v, real %v", i, name, e1, e2)
			}
		case 11:
			i1, e1 := simos.Stat(name)
			i2, e2 := os.Stat(rn)
			if errClass(e1) != errClass(e2) {
				return i, fmt.Errorf("op %d Stat(%s): sim %v, real %v", i, name, e1, e2)
			}
			if e1 == nil && (i1.IsDir() != i2.IsDir() || (!i1.IsDir() && i1.Size() != i2.Size())) {
				return i, fmt.Errorf("op %d Stat(%s): sim dir=%v size=%d, real dir=%v size=%d", i, name, i1.IsDir(), i1.Size(), i2.IsDir(), i2.Size())
			}
		case 12:
			if r.Chance(1, 2) {
				e1, e2 := simos.RemoveAll(name), os.RemoveAll(rn)
				if errClass(e1) != errClass(e2) {
					return i, fmt.Errorf("op %d RemoveAll(%s): sim %v, real %v", i, name, e1, e2)
				}
				continue
			}
			other := names[r.Intn(len(names))]
			if st, err := os.Stat(rn); err != nil || st.IsDir() {
				continue // only regular files are renamed (directories are not modelled; gts renames nothing)
			}
			if st, err := os.Stat(root + other); err == nil && st.IsDir() {
				continue
			}
			if r.Chance(1, 3) {
				// a second name for the same file: writes through one show under the other
				e1, e2 := simos.Link(name, other), os.Link(rn, root+other)
				if errClass(e1) != errClass(e2) {
					return i, fmt.Errorf("op %d Link(%s,%s): sim %v, real %v", i, name, other, e1, e2)
				}
				continue
			}
			e1, e2 := simos.Rename(name, other), os.Rename(rn, root+other)
			if errClass(e1) != errClass(e2) {
				return i, fmt.Errorf("op %d Rename(%s,%s): sim %v, real %v", i, name, other, e1, e2)
			}
		case 13:
			var l1, l2 []string
			e1 := simfilepath.Walk("/u", func(p string, info os.FileInfo, err error) error {
				if err != nil {
					return err
				}
				l1 = append(l1, fmt.Sprintf("%s:%v:%d", p, info.IsDir(), sizeOf(info)))
				return nil
			})
			e2 := filepath.Walk(root+"/u", func(p string, info os.FileInfo, err error) error {
				if err != nil {
					return err
				}
				l2 = append(l2, fmt.Sprintf("%s:%v:%d", strings.TrimPrefix(p, root), info.IsDir(), sizeOf(info)))
				return nil
			})
			if errClass(e1) != errClass(e2) || strings.Join(l1, "|") != strings.Join(l2, "|") {
				return i, fmt.Errorf("op %d Walk: sim %v %v, real %v %v", i, l1, e1, l2, e2)
			}
		}
	}
	for k := range rh {
		rh[k].Close()
		sh[k].Close()
	}
	// final image
	img := map[string]string{}
	filepath.Walk(root+"/u", func(p string, info os.FileInfo, err error) error {
		if err == nil && !info.IsDir() {
			b, _ := os.ReadFile(p)
			img[strings.TrimPrefix(p, root)] = string(b)
		}
		return nil
	})
	sim := w.Snapshot("/u")
	var a, b []string
	for p, d := range img {
		a = append(a, p+"="+d)
	}
	for p, d := range sim {
		b = append(b, p+"="+string(d))
	}
	sort.Strings(a)
	sort.Strings(b)
	if strings.Join(a, "\x00") != strings.Join(b, "\x00") {
		return nops, fmt.Errorf("final directory images differ: real has %d files, simulated %d", len(a), len(b))
	}
	return nops, nil
}

func sizeOf(i os.FileInfo) int64 {
	if i.IsDir() {
		return 0
	}
	return i.Size()
}
