package main

import (
	"github.com/go-gts/gts/internal/verifsim/core"
	"github.com/go-gts/gts/internal/verifsim/e2"
)

func main() {
	e2.SnapshotRegistries()
	core.Main("e2", map[string]core.PropEngine{
		"C01": e2.C01{},
		"C07": e2.C07{},
		"C17": e2.C17{},
	})
}
