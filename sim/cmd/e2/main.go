package main

import "github.com/go-gts/gts/internal/verifsim/core"

func main() {
	core.Main("e2", map[string]core.PropEngine{})
}
